#!/bin/sh
# Builds the verifier from the vendored sources; offline.
set -e
cd "$(dirname "$0")/engine"
mkdir -p ../bin
GOFLAGS=-mod=vendor GOPROXY=off go build -o ../bin/gcv .

package main

// Operator semantics: Go integer (wrap-around), boolean, string, float
// operations as SMT terms. Integer mode: SMT Int with explicit wrap. BV mode:
// bit-vectors (per function, `arith bv`).

import (
	"fmt"
	"go/constant"
	"go/token"
	"go/types"
	"math"
	"math/big"
	"strings"
)

type bigInt = big.Int

func fpConst(v constant.Value, f32 bool) Term {
	f, _ := constant.Float64Val(v)
	if f32 {
		bits := math.Float32bits(float32(f))
		return fmt.Sprintf("((_ to_fp 8 24) #x%08x)", bits)
	}
	bits := math.Float64bits(f)
	return fmt.Sprintf("((_ to_fp 11 53) #x%016x)", bits)
}

func isFloat(t types.Type) bool {
	b, ok := t.Underlying().(*types.Basic)
	return ok && b.Info()&types.IsFloat != 0
}
func isString(t types.Type) bool {
	b, ok := t.Underlying().(*types.Basic)
	return ok && b.Info()&types.IsString != 0
}
func isBool(t types.Type) bool {
	b, ok := t.Underlying().(*types.Basic)
	return ok && b.Info()&types.IsBoolean != 0
}

// literal value of an Int-mode term, if it is one
func litVal(t Term) (*big.Int, bool) {
	s := t
	neg := false
	if strings.HasPrefix(s, "(- ") && strings.HasSuffix(s, ")") {
		s = s[3 : len(s)-1]
		neg = true
	}
	if s == "" {
		return nil, false
	}
	for _, c := range s {
		if c < '0' || c > '9' {
			return nil, false
		}
	}
	v, ok := new(big.Int).SetString(s, 10)
	if !ok {
		return nil, false
	}
	if neg {
		v.Neg(v)
	}
	return v, true
}

func isPow2Minus1(v *big.Int) (int, bool) {
	if v.Sign() < 0 {
		return 0, false
	}
	w := new(big.Int).Add(v, big.NewInt(1))
	if w.BitLen() > 0 && new(big.Int).And(w, v).Sign() == 0 {
		return w.BitLen() - 1, true
	}
	return 0, false
}

func (x *Exec) binop(op token.Token, a, b Term, ta, tb, tr types.Type) Term {
	if ii, ok := x.X.intInfoOf(ta); ok {
		if x.X.bvMode && !ii.math {
			return x.bvBinop(op, a, b, ii, tb)
		}
		return x.intBinop(op, a, b, ii, tb)
	}
	if isFloat(ta) {
		return fpBinop(op, a, b)
	}
	switch op {
	case token.EQL:
		return eq(a, b)
	case token.NEQ:
		return not(eq(a, b))
	case token.LAND:
		return and(a, b)
	case token.LOR:
		return or(a, b)
	}
	if isString(ta) {
		switch op {
		case token.ADD:
			return sx("strcat", a, b)
		case token.LSS:
			return sx("strlt", a, b)
		case token.GTR:
			return sx("strlt", b, a)
		case token.LEQ:
			return not(sx("strlt", b, a))
		case token.GEQ:
			return not(sx("strlt", a, b))
		}
	}
	if isBool(ta) {
		switch op {
		case token.AND:
			return and(a, b)
		case token.OR:
			return or(a, b)
		case token.XOR:
			return not(eq(a, b))
		}
	}
	x.abstract(fmt.Sprintf("binop %s on %s", op, ta))
	return ""
}

func isCmp(op token.Token) bool {
	switch op {
	case token.EQL, token.NEQ, token.LSS, token.LEQ, token.GTR, token.GEQ:
		return true
	}
	return false
}

func (x *Exec) intBinop(op token.Token, a, b Term, ii intInfo, tb types.Type) Term {
	switch op {
	case token.EQL:
		return eq(a, b)
	case token.NEQ:
		return not(eq(a, b))
	case token.LSS:
		return sx("<", a, b)
	case token.LEQ:
		return sx("<=", a, b)
	case token.GTR:
		return sx(">", a, b)
	case token.GEQ:
		return sx(">=", a, b)
	}
	if ii.math {
		switch op {
		case token.ADD:
			return sx("+", a, b)
		case token.SUB:
			return sx("-", a, b)
		case token.MUL:
			return sx("*", a, b)
		case token.QUO:
			return sx("tdiv", a, b)
		case token.REM:
			return sx("trem", a, b)
		}
	}
	max, min := intLit(ii.max()), intLit(ii.min())
	mod := intLit(pow2(ii.bits))
	switch op {
	case token.ADD:
		if ii.signed {
			return fmt.Sprintf("(let ((s!! (+ %s %s))) (ite (> s!! %s) (- s!! %s) (ite (< s!! %s) (+ s!! %s) s!!)))", a, b, max, mod, min, mod)
		}
		return fmt.Sprintf("(let ((s!! (+ %s %s))) (ite (> s!! %s) (- s!! %s) s!!))", a, b, max, mod)
	case token.SUB:
		if ii.signed {
			return fmt.Sprintf("(let ((s!! (- %s %s))) (ite (> s!! %s) (- s!! %s) (ite (< s!! %s) (+ s!! %s) s!!)))", a, b, max, mod, min, mod)
		}
		return fmt.Sprintf("(let ((s!! (- %s %s))) (ite (< s!! 0) (+ s!! %s) s!!))", a, b, mod)
	case token.MUL:
		return ii.wrap(sx("*", a, b))
	case token.QUO:
		if ii.signed {
			return ii.wrap(sx("tdiv", a, b))
		}
		return sx("div", a, b)
	case token.REM:
		if ii.signed {
			return sx("trem", a, b)
		}
		return sx("mod", a, b)
	case token.AND:
		if v, ok := litVal(b); ok {
			if k, ok := isPow2Minus1(v); ok {
				return sx("mod", a, intLit(pow2(k)))
			}
			if v.Sign() == 0 {
				return "0"
			}
		}
		if v, ok := litVal(a); ok {
			if k, ok := isPow2Minus1(v); ok {
				return sx("mod", b, intLit(pow2(k)))
			}
		}
		return sx("band", a, b)
	case token.OR:
		return sx("bor", a, b)
	case token.XOR:
		return sx("bxor", a, b)
	case token.AND_NOT:
		return ii.wrap(sx("-", a, sx("band", a, b)))
	case token.SHL:
		if v, ok := litVal(b); ok && v.IsInt64() && v.Int64() >= 0 {
			if v.Int64() >= int64(ii.bits) {
				return "0"
			}
			return ii.wrap(sx("*", a, intLit(pow2(int(v.Int64())))))
		}
		return ii.wrap(sx("*", a, x.pow2Term(b, ii.bits)))
	case token.SHR:
		if v, ok := litVal(b); ok && v.IsInt64() && v.Int64() >= 0 {
			if v.Int64() >= int64(ii.bits) {
				if ii.signed {
					return ite(sx("<", a, "0"), "(- 1)", "0")
				}
				return "0"
			}
			return sx("div", a, intLit(pow2(int(v.Int64()))))
		}
		return sx("div", a, x.pow2Term(b, ii.bits))
	}
	x.abstract(fmt.Sprintf("int binop %s", op))
	return ""
}

// 2^s for symbolic s in [0,bits); for s >= bits the result is 2^bits (so a
// left shift wraps to 0 and a right shift of an in-range value gives 0 / -1).
func (x *Exec) pow2Term(s Term, bits int) Term {
	t := intLit(pow2(bits))
	for k := bits - 1; k >= 0; k-- {
		t = fmt.Sprintf("(ite (= %s %d) %s %s)", s, k, intLit(pow2(k)), t)
	}
	return t
}

func fpBinop(op token.Token, a, b Term) Term {
	switch op {
	case token.ADD:
		return sx("fp.add RNE", a, b)
	case token.SUB:
		return sx("fp.sub RNE", a, b)
	case token.MUL:
		return sx("fp.mul RNE", a, b)
	case token.QUO:
		return sx("fp.div RNE", a, b)
	case token.EQL:
		return sx("fp.eq", a, b)
	case token.NEQ:
		return not(sx("fp.eq", a, b))
	case token.LSS:
		return sx("fp.lt", a, b)
	case token.LEQ:
		return sx("fp.leq", a, b)
	case token.GTR:
		return sx("fp.gt", a, b)
	case token.GEQ:
		return sx("fp.geq", a, b)
	}
	return ""
}

func (x *Exec) bvBinop(op token.Token, a, b Term, ii intInfo, tb types.Type) Term {
	s := ii.signed
	pick := func(sg, us string) string {
		if s {
			return sg
		}
		return us
	}
	switch op {
	case token.EQL:
		return eq(a, b)
	case token.NEQ:
		return not(eq(a, b))
	case token.LSS:
		return sx(pick("bvslt", "bvult"), a, b)
	case token.LEQ:
		return sx(pick("bvsle", "bvule"), a, b)
	case token.GTR:
		return sx(pick("bvsgt", "bvugt"), a, b)
	case token.GEQ:
		return sx(pick("bvsge", "bvuge"), a, b)
	case token.ADD:
		return sx("bvadd", a, b)
	case token.SUB:
		return sx("bvsub", a, b)
	case token.MUL:
		return sx("bvmul", a, b)
	case token.QUO:
		return sx(pick("bvsdiv", "bvudiv"), a, b)
	case token.REM:
		return sx(pick("bvsrem", "bvurem"), a, b)
	case token.AND:
		return sx("bvand", a, b)
	case token.OR:
		return sx("bvor", a, b)
	case token.XOR:
		return sx("bvxor", a, b)
	case token.AND_NOT:
		return sx("bvand", a, sx("bvnot", b))
	case token.SHL, token.SHR:
		// shift amount may have a different width
		bi, _ := x.X.intInfoOf(tb)
		sh := b
		if bi.bits < ii.bits {
			sh = sx(fmt.Sprintf("(_ zero_extend %d)", ii.bits-bi.bits), b)
		} else if bi.bits > ii.bits {
			// saturate
			lim := fmt.Sprintf("(_ bv%d %d)", ii.bits, bi.bits)
			sh = ite(sx("bvuge", b, lim), fmt.Sprintf("(_ bv%d %d)", ii.bits, ii.bits), sx(fmt.Sprintf("(_ extract %d 0)", ii.bits-1), b))
		}
		if op == token.SHL {
			return sx("bvshl", a, sh)
		}
		return sx(pick("bvashr", "bvlshr"), a, sh)
	}
	return ""
}

func (x *Exec) unop(op token.Token, a Term, t types.Type) Term {
	switch op {
	case token.NOT:
		return not(a)
	case token.SUB:
		if isFloat(t) {
			return sx("fp.neg", a)
		}
		ii, _ := x.X.intInfoOf(t)
		if x.X.bvMode && !ii.math {
			return sx("bvneg", a)
		}
		return ii.wrap(sx("-", a))
	case token.XOR:
		ii, _ := x.X.intInfoOf(t)
		if x.X.bvMode && !ii.math {
			return sx("bvnot", a)
		}
		if ii.signed {
			return sx("-", sx("-", a), "1")
		}
		return sx("-", intLit(ii.max()), a)
	}
	x.abstract(fmt.Sprintf("unop %s", op))
	return ""
}

// conversion between Go types
func (x *Exec) convert(a Term, from, to types.Type) (Term, bool) {
	fi, fok := x.X.intInfoOf(from)
	ti, tok := x.X.intInfoOf(to)
	switch {
	case fok && tok:
		if x.X.bvMode {
			return x.bvConvert(a, fi, ti), true
		}
		if ti.math {
			return a, true
		}
		if !fi.math && fi.signed == ti.signed && fi.bits <= ti.bits {
			return a, true
		}
		if !fi.math && !fi.signed && ti.signed && fi.bits < ti.bits {
			return a, true
		}
		if v, ok := litVal(a); ok && v.Cmp(ti.min()) >= 0 && v.Cmp(ti.max()) <= 0 {
			return a, true
		}
		return ti.wrap(a), true
	case isFloat(from) && isFloat(to):
		if x.X.sortOf(from) == x.X.sortOf(to) {
			return a, true
		}
		if x.X.sortOf(to) == "(_ FloatingPoint 11 53)" {
			return sx("(_ to_fp 11 53) RNE", a), true
		}
		return sx("(_ to_fp 8 24) RNE", a), true
	case fok && isFloat(to):
		eb, sb := 11, 53
		if x.X.sortOf(to) != "(_ FloatingPoint 11 53)" {
			eb, sb = 8, 24
		}
		if x.X.bvMode && !fi.math {
			if fi.signed {
				return sx(fmt.Sprintf("(_ to_fp %d %d) RNE", eb, sb), a), true
			}
			return sx(fmt.Sprintf("(_ to_fp_unsigned %d %d) RNE", eb, sb), a), true
		}
		return sx(fmt.Sprintf("(_ to_fp %d %d) RNE", eb, sb), sx("to_real", a)), true
	case isFloat(from) && tok:
		if x.X.bvMode && !ti.math {
			// amd64: CVTTSD2SI returns the "integer indefinite" value MinInt64 for NaN / out of range (assumed)
			if ti.signed && ti.bits == 64 {
				lo := "((_ to_fp 11 53) RNE (- 9223372036854775808.0))"
				hi := "((_ to_fp 11 53) RNE 9223372036854775808.0)"
				inr := and(sx("fp.geq", a, lo), sx("fp.lt", a, hi))
				return ite(inr, sx("(_ fp.to_sbv 64) RTZ", a), "#x8000000000000000"), true
			}
			if ti.signed {
				return sx(fmt.Sprintf("(_ fp.to_sbv %d) RTZ", ti.bits), a), true
			}
			return sx(fmt.Sprintf("(_ fp.to_ubv %d) RTZ", ti.bits), a), true
		}
		return "", false
	case isString(from) && isString(to):
		return a, true
	}
	if types.Identical(from.Underlying(), to.Underlying()) {
		return a, true
	}
	return "", false
}

func (x *Exec) bvConvert(a Term, fi, ti intInfo) Term {
	if fi.math && ti.math {
		return a
	}
	if ti.math {
		// bit-vector to unbounded integer (specification type Z)
		if fi.signed {
			return ite(sx("bvslt", a, fmt.Sprintf("(_ bv0 %d)", fi.bits)), sx("-", sx("bv2nat", a), intLit(pow2(fi.bits))), sx("bv2nat", a))
		}
		return sx("bv2nat", a)
	}
	if fi.math {
		return sx(fmt.Sprintf("(_ int2bv %d)", ti.bits), a)
	}
	switch {
	case fi.bits == ti.bits:
		return a
	case fi.bits > ti.bits:
		return sx(fmt.Sprintf("(_ extract %d 0)", ti.bits-1), a)
	default:
		if fi.signed {
			return sx(fmt.Sprintf("(_ sign_extend %d)", ti.bits-fi.bits), a)
		}
		return sx(fmt.Sprintf("(_ zero_extend %d)", ti.bits-fi.bits), a)
	}
}

package main

import (
	"regexp"
	"strings"
)

// obligations listed as unclaimed in the baseline of the property being checked
var evidenceUnclaimed map[string]bool

var safetyNameRe =regexp.MustCompile(`:(nil|index|slice|div0|shift|typeassert|chan|makeslice|nilmap|panic|frame|atomic):\d+$`)

func isKnownFinding(prop, obligation string) bool {
	var known []KnownFinding
	readJSON(verifDir+"/known_findings.json", &known)
	for _, k := range known {
		if k.Property == prop && k.Obligation == obligation && k.Status == "known" {
			return true
		}
	}
	return false
}

// funcStillPresent: the function an obligation name belongs to was verified in this run.
func funcStillPresent(name string, out *runOutput) bool {
	loc := safetyNameRe.FindStringIndex(name)
	if loc == nil {
		return false
	}
	fn := name[:loc[0]]
	for _, f := range out.funcs {
		if f == fn {
			return true
		}
	}
	return false
}

func obligationFunc(name string) string {
	// names are <func>:<kind>[:...]; function names may contain ':' never, but contain '.' and parens
	if i := strings.Index(name, ":"); i >= 0 {
		return name[:i]
	}
	return name
}

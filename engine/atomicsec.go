package main

import (
	"fmt"
	"go/token"
	"go/types"
	"strings"

	"golang.org/x/tools/go/ssa"
)

// critCheck: for a function declared `opt atomic <mutex field>`, every access
// to heap state of the receiver object must happen inside the critical section.
func (x *Exec) critCheck(st *State, a *Addr, pos token.Pos) {
	if x.fc == nil || x.fc.Opts["atomic"] == "" || x.inCrit {
		return
	}
	if a == nil || a.Kind == aCell {
		return
	}
	if len(x.fn.Params) == 0 || a.Ref == "" {
		return
	}
	recv := x.vals[x.fn.Params[0]].T
	// only accesses to the receiver object matter
	x.oblige(st, "atomic", fmt.Sprintf("atomic:%d", x.ordinal("atomic")), not(eq(a.Ref, recv)), pos, false, x.props())
}

// sync/atomic functions on addresses: each is one sequentially consistent
// action; modelled as plain loads and stores of the addressed cell.
func (x *Exec) atomicCall(f *frame, in ssa.Instruction, name string, c *ssa.CallCommon, args []Val) (Val, bool) {
	st := f.st
	if !strings.HasPrefix(name, "sync/atomic.") {
		return Val{}, false
	}
	op := strings.TrimPrefix(name, "sync/atomic.")
	pt, ok := c.Args[0].Type().Underlying().(*types.Pointer)
	if !ok {
		return Val{}, false
	}
	et := pt.Elem()
	a := x.addrOf(args[0], et)
	x.assumed["sync/atomic operations are single sequentially consistent actions (Go memory model)"] = true
	load := func() Term {
		t := x.define(x.fresh("aload"), x.X.sortOf(et), x.loadAddr(stateView{x, st}, a))
		x.assume(st, x.typeInv(et, t, st))
		return t
	}
	switch {
	case strings.HasPrefix(op, "Load"):
		return Val{T: load()}, true
	case strings.HasPrefix(op, "Store"):
		x.frameCheck(st, a, in.Pos())
		x.storeAddr(st, a, args[1].T)
		return Val{}, true
	case strings.HasPrefix(op, "Add"):
		old := load()
		nv := x.define(x.fresh("aadd"), x.X.sortOf(et), x.binop(token.ADD, old, args[1].T, et, et, et))
		x.frameCheck(st, a, in.Pos())
		x.storeAddr(st, a, nv)
		return Val{T: nv}, true
	case strings.HasPrefix(op, "Swap"):
		old := load()
		x.frameCheck(st, a, in.Pos())
		x.storeAddr(st, a, args[1].T)
		return Val{T: old}, true
	case strings.HasPrefix(op, "CompareAndSwap"):
		old := load()
		ok := x.define(x.fresh("cas"), "Bool", eq(old, args[1].T))
		x.frameCheck(st, a, in.Pos())
		x.storeAddr(st, a, ite(ok, args[2].T, old))
		return Val{T: ok}, true
	}
	return Val{}, false
}

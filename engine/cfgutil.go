package main

import "golang.org/x/tools/go/ssa"

// blockReaches: there is a CFG path from a to b (a != b, or a cycle through a).
func blockReaches(a, b *ssa.BasicBlock) bool {
	seen := map[*ssa.BasicBlock]bool{}
	stack := append([]*ssa.BasicBlock{}, a.Succs...)
	for len(stack) > 0 {
		n := stack[len(stack)-1]
		stack = stack[:len(stack)-1]
		if n == b {
			return true
		}
		if seen[n] {
			continue
		}
		seen[n] = true
		stack = append(stack, n.Succs...)
	}
	return false
}

package main

import "strings"

// Automatic E-matching patterns for quantifiers that come from contract
// clauses: every array read (select A I) whose index is the bound variable or
// offset+bound variable, with A independent of the bound variable.

type sexp struct {
	atom string
	kids []*sexp
}

func parseSexp(s string) *sexp {
	pos := 0
	var parse func() *sexp
	parse = func() *sexp {
		for pos < len(s) && (s[pos] == ' ' || s[pos] == '\n' || s[pos] == '\t') {
			pos++
		}
		if pos >= len(s) {
			return nil
		}
		if s[pos] == '(' {
			pos++
			n := &sexp{}
			for {
				for pos < len(s) && (s[pos] == ' ' || s[pos] == '\n' || s[pos] == '\t') {
					pos++
				}
				if pos >= len(s) {
					return n
				}
				if s[pos] == ')' {
					pos++
					return n
				}
				k := parse()
				if k == nil {
					return n
				}
				n.kids = append(n.kids, k)
			}
		}
		start := pos
		for pos < len(s) && s[pos] != ' ' && s[pos] != '\n' && s[pos] != '\t' && s[pos] != '(' && s[pos] != ')' {
			pos++
		}
		return &sexp{atom: s[start:pos]}
	}
	return parse()
}

func (n *sexp) String() string {
	if n.kids == nil && n.atom != "" {
		return n.atom
	}
	parts := make([]string, len(n.kids))
	for i, k := range n.kids {
		parts[i] = k.String()
	}
	return "(" + strings.Join(parts, " ") + ")"
}

func (n *sexp) contains(v string) bool {
	if n.kids == nil {
		return n.atom == v
	}
	for _, k := range n.kids {
		if k.contains(v) {
			return true
		}
	}
	return false
}

func (n *sexp) head() string {
	if len(n.kids) > 0 && n.kids[0].kids == nil {
		return n.kids[0].atom
	}
	return ""
}

// hasBinder: the term contains let/forall/exists (pattern terms must not)
func (n *sexp) hasBinder() bool {
	switch n.head() {
	case "let", "forall", "exists", "ite", "and", "or", "not", "=>", "=", "<", "<=", ">", ">=":
		return true
	}
	for _, k := range n.kids {
		if k.hasBinder() {
			return true
		}
	}
	return false
}

func autoPatterns(body string, bvs []string) []string {
	if len(bvs) == 2 {
		return autoPatterns2(body, bvs)
	}
	if len(bvs) != 1 {
		return nil
	}
	bv := bvs[0]
	root := parseSexp(body)
	if root == nil {
		return nil
	}
	seen := map[string]bool{}
	var out []string
	var walk func(n *sexp)
	walk = func(n *sexp) {
		if n.kids == nil {
			return
		}
		if n.head() == "select" && len(n.kids) == 3 {
			arr, idx := n.kids[1], n.kids[2]
			okIdx := false
			if idx.kids == nil && idx.atom == bv {
				okIdx = true
			} else if idx.head() == "+" && len(idx.kids) == 3 {
				a, b := idx.kids[1], idx.kids[2]
				if (a.kids == nil && a.atom == bv && !b.contains(bv)) || (b.kids == nil && b.atom == bv && !a.contains(bv)) {
					okIdx = true
				}
			}
			if okIdx && !arr.contains(bv) && !n.hasBinder() {
				s := n.String()
				if !seen[s] && len(out) < 6 {
					seen[s] = true
					out = append(out, s)
				}
			}
		}
		for _, k := range n.kids {
			walk(k)
		}
	}
	walk(root)
	return out
}

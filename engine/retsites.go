package main

// `assert at return K EXPR`: an assertion at the K-th return statement of the
// function (source order, nested function literals not counted). The clause
// sees the locals in scope there and result0, result1, ... (the values being
// returned).

import (
	"fmt"
	"go/ast"
	"go/token"
	"strings"

	"golang.org/x/tools/go/ssa"
)

func findReturnSite(body ast.Node, site string) token.Pos {
	k := 1
	if i := strings.LastIndex(site, "#"); i >= 0 {
		fmt.Sscanf(site[i+1:], "%d", &k)
	}
	n := 0
	res := token.NoPos
	var walk func(nd ast.Node) bool
	walk = func(nd ast.Node) bool {
		switch r := nd.(type) {
		case *ast.FuncLit:
			return false
		case *ast.ReturnStmt:
			n++
			if n == k && res == token.NoPos {
				res = r.Pos()
			}
		}
		return true
	}
	if fl, ok := body.(*ast.FuncLit); ok {
		ast.Inspect(fl.Body, walk)
	} else {
		ast.Inspect(body, walk)
	}
	return res
}

func (x *Exec) returnAssertions(st *State, in *ssa.Return, results []Val) {
	if x.fc == nil || len(x.fc.RetAsrt) == 0 {
		return
	}
	key := "end" // the implicit return at the closing brace has no position
	if in.Pos().IsValid() {
		key = x.posKey(in.Pos())
	}
	canary := false
	for _, ca := range x.fc.RetAsrt {
		if ca.SitePos == "" || ca.SitePos != key || ca.FnSym == "" {
			continue
		}
		if !canary {
			canary = true
			x.obls = append(x.obls, &Obligation{Name: x.short + ":reach:" + ca.Site, Kind: "site-reach", Props: x.props(), Prefix: x.out.Len(), Live: st.live, Goal: "false", Canary: true, Func: x.short})
		}
		oldSt := x.entry
		if strings.Contains(ca.Text, "athead(") {
			// athead(e): e at the head of the innermost loop around this return statement
			if hs := x.headStateFor(in); hs != nil {
				oldSt = hs
			} else {
				x.errorf("athead() used at %s, which is not inside a loop", ca.Site)
			}
		}
		t := x.evalClauseDual(ca, x.fn, st, oldSt, results, false, nil)[0].T
		nth := 0
		for _, other := range x.fc.RetAsrt {
			if other.Site == ca.Site {
				nth++
			}
			if other == ca {
				break
			}
		}
		o := x.oblige(st, "assert", fmt.Sprintf("assert:%s:%d", ca.Site, nth), t, in.Pos(), false, x.props())
		o.Clause, o.Line = ca.Text, ca.Line
	}
}

package main

// Slices of array-typed struct fields (p.header[:]). The array field lives in
// its field component H_T_f[ref]; the slice needs a backing store in the
// element heap. Both views are kept: the slice's base is afb_<comp>(ref) (an
// injective function into the negative references), the element-heap entry
// is set to the field's value when the slice is made, and after every
// instruction that changes either component the other one is updated, so that
// reads through either view agree. Only used in functions without loops (loop
// heads havoc components independently); with loops the old abstraction
// (contents unknown) is used and reported.

import "golang.org/x/tools/go/ssa"

type arrAlias struct {
	ecomp, esrt string
	base        Term
	hcomp, hsrt string
	ref         Term
}

func (x *Exec) arrFieldBase(hcomp string, ref Term) Term {
	fn := "afb_" + sanitize(hcomp)
	x.X.declare(fn, "(declare-fun "+fn+" (Int) Int)\n(declare-fun "+fn+"_inv (Int) Int)\n(assert (forall ((p Int)) (! (and (= ("+fn+"_inv ("+fn+" p)) p) (< ("+fn+" p) 0)) :pattern (("+fn+" p)))))")
	return sx(fn, ref)
}

// sliceArrayField returns the backing-store base for a slice of the array field at a.
func (x *Exec) sliceArrayField(st *State, a *Addr, ecomp, esrt string) Term {
	base := x.define(x.fresh("afb"), "Int", x.arrFieldBase(a.Comp, a.Ref))
	hsrt := x.comps[a.Comp]
	h := x.heapGet(st, a.Comp, hsrt)
	e := x.heapGet(st, ecomp, esrt)
	st.heap[ecomp] = x.define(x.fresh(ecomp), esrt, sx("store", e, base, sx("select", h, a.Ref)))
	for _, al := range x.aliases {
		if al.ecomp == ecomp && al.hcomp == a.Comp && al.ref == a.Ref {
			return al.base
		}
	}
	x.aliases = append(x.aliases, arrAlias{ecomp: ecomp, esrt: esrt, base: base, hcomp: a.Comp, hsrt: hsrt, ref: a.Ref})
	return base
}

type aliasSnap struct{ e, h []Term }

func (x *Exec) aliasSnapshot(st *State) aliasSnap {
	var s aliasSnap
	for _, al := range x.aliases {
		s.e = append(s.e, x.heapGet(st, al.ecomp, al.esrt))
		s.h = append(s.h, x.heapGet(st, al.hcomp, al.hsrt))
	}
	return s
}

// recouple re-establishes E[base] == H[ref] for every registered alias after an instruction.
func (x *Exec) recouple(st *State, before aliasSnap, in ssa.Instruction) {
	for i, al := range x.aliases {
		if i >= len(before.e) {
			break // registered by this very instruction: coupled by construction
		}
		e0, h0 := before.e[i], before.h[i]
		e1 := x.heapGet(st, al.ecomp, al.esrt)
		h1 := x.heapGet(st, al.hcomp, al.hsrt)
		switch {
		case e1 == e0 && h1 == h0:
		case e1 != e0 && h1 == h0:
			// the element heap changed: if the change hit the backing store, the field follows
			nv := ite(eq(sx("select", e1, al.base), sx("select", e0, al.base)), sx("select", h0, al.ref), sx("select", e1, al.base))
			st.heap[al.hcomp] = x.define(x.fresh(al.hcomp), al.hsrt, sx("store", h1, al.ref, nv))
		case e1 == e0 && h1 != h0:
			nv := ite(eq(sx("select", h1, al.ref), sx("select", h0, al.ref)), sx("select", e0, al.base), sx("select", h1, al.ref))
			st.heap[al.ecomp] = x.define(x.fresh(al.ecomp), al.esrt, sx("store", e1, al.base, nv))
		default:
			// both changed by one instruction (a call): the array is unknown afterwards, but one array
			hv := x.havocConst("arr", "(Array Int "+elemSortOfArrayComp(al.hsrt)+")")
			st.heap[al.ecomp] = x.define(x.fresh(al.ecomp), al.esrt, sx("store", e1, al.base, hv))
			st.heap[al.hcomp] = x.define(x.fresh(al.hcomp), al.hsrt, sx("store", st.heap[al.hcomp], al.ref, hv))
		}
	}
}

// elemSortOfArrayComp: "(Array Int (Array Int S))" -> S
func elemSortOfArrayComp(hsrt string) string {
	const p = "(Array Int (Array Int "
	if len(hsrt) > len(p)+2 && hsrt[:len(p)] == p {
		return hsrt[len(p) : len(hsrt)-2]
	}
	return "Int"
}

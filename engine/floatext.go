package main

import (
	"golang.org/x/tools/go/ssa"
)

const fpZero = "(_ +zero 11 53)"
const fpOne = "((_ to_fp 11 53) #x3ff0000000000000)"

func init() {
	pureExterns["math.IsNaN"] = func(x *Exec, f *frame, m int, a []Val, in ssa.Value) (Val, bool) {
		return Val{T: sx("fp.isNaN", a[0].T)}, true
	}
	pureExterns["math.IsInf"] = func(x *Exec, f *frame, m int, a []Val, in ssa.Value) (Val, bool) {
		// sign argument: >0 +Inf, <0 -Inf, 0 either; only constant signs are supported
		if v, ok := litVal(a[1].T); ok {
			switch v.Sign() {
			case 1:
				return Val{T: and(sx("fp.isInfinite", a[0].T), sx("fp.isPositive", a[0].T))}, true
			case -1:
				return Val{T: and(sx("fp.isInfinite", a[0].T), sx("fp.isNegative", a[0].T))}, true
			}
			return Val{T: sx("fp.isInfinite", a[0].T)}, true
		}
		return Val{T: sx("fp.isInfinite", a[0].T)}, true
	}
	pureExterns["math.Abs"] = func(x *Exec, f *frame, m int, a []Val, in ssa.Value) (Val, bool) {
		return Val{T: sx("fp.abs", a[0].T)}, true
	}
}

// randFloat64: math/rand(/v2).Float64 returns a value in [0,1).
func (x *Exec) randFloat64(st *State) Val {
	r := x.havocConst("rand", "(_ FloatingPoint 11 53)")
	x.assume(st, and(sx("fp.geq", r, fpZero), sx("fp.lt", r, fpOne)))
	x.assumed["extern math/rand Float64: result r with 0 <= r < 1 (any such value)"] = true
	return Val{T: r}
}

package main

// Loading /repo packages, generating the clause-function file from the //@
// contracts (supplied through the go/packages overlay only), and SSA building.

import (
	"fmt"
	"go/ast"
	"go/parser"
	"go/token"
	"go/types"
	"os"
	"path/filepath"
	"regexp"
	"sort"
	"strings"
	"time"

	"golang.org/x/tools/go/packages"
	"golang.org/x/tools/go/ssa"
	"golang.org/x/tools/go/ssa/ssautil"
)

const contractFileName = "zz_verif_contracts.go"
const genFileName = "zz_gcv_generated.go"

type Loaded struct {
	Fset      *token.FileSet
	Prog      *ssa.Program
	Pkgs      map[string]*packages.Package // by path
	SSAPkgs   map[string]*ssa.Package
	Contracts map[string]*PkgContracts // by package path
	FuncCon   map[string]*FuncContract // "pkgpath.key" -> contract
	Monitors  map[string]*MonitorDecl  // "pkgpath.Type"
	GenText   map[string]string
	RepoDir   string
	LoadSecs  float64
}

var specHelperNames = map[string]bool{
	"old": true, "athead": true, "held": true, "implies": true, "iff": true, "forall": true, "exists": true, "forall2": true, "forallk": true,
	"Z": true, "result": true, "panics": true, "fresh": true, "strdigits": true, "parsedec": true,
	"substr": true, "imin": true, "imax": true, "lower": true, "isnil": true, "typeis": true,
	"sliceeq": true, "sameslice": true, "samemap": true, "visited": true, "isclosed": true, "sameval": true, "psum": true, "let": true, "ite": true, "alloc": true,
	"str": true, "bytesOf": true, "unchanged": true, "trunc": true,
}

const specPreludeGo = `
type Z int

func old[T any](x T) T                  { return x }
func athead[T any](x T) T               { return x }
func held(mu string) bool               { return mu != "" }
func implies(a, b bool) bool            { return !a || b }
func iff(a, b bool) bool                { return a == b }
func forall(f func(i int) bool) bool    { return f(0) }
func exists(f func(i int) bool) bool    { return f(0) }
func forallk[K any](f func(k K) bool) bool { var z K; return f(z) }
func forall2(f func(i, j int) bool) bool { return f(0, 0) }
func strdigits(s string) bool           { return s != "" }
func parsedec(s string) Z               { return Z(len(s)) }
func lower(s string) string             { return s }
func imin[T ~int | ~int64 | ~uint64 | ~uint32 | ~int32](a, b T) T { if a < b { return a }; return b }
func imax[T ~int | ~int64 | ~uint64 | ~uint32 | ~int32](a, b T) T { if a > b { return a }; return b }
func ite[T any](c bool, a, b T) T       { if c { return a }; return b }
func fresh[T any](p T) bool             { return true }
func sameslice[T any](a, b []T) bool    { return len(a) == len(b) }
func samemap[K comparable, V any](a, b map[K]V) bool { return len(a) == len(b) }
func visited[K comparable](k K) bool { return true }
func isclosed[T any](c chan T) bool { return c == nil }
func sameval[T any](a, b T) bool { return true }
func sliceeq[T comparable](a, b []T) bool { return len(a) == len(b) }
func str(b []byte) string               { return string(b) }
func typeis[T any](v any) bool          { _, ok := v.(T); return ok }
func psum[T any](f func(T) Z, s []T, n int) Z { return 0 }
func isstatus(e error) bool             { return e != nil }
func lastrand() int64                   { return 0 }
func ncalls(name string) int            { return len(name) }
func lastval(name string) Z             { return Z(len(name)) }
func lastret(name string) Z             { return Z(len(name)) }
func nchanges(name string) int          { return len(name) }
func lastold(name string) Z             { return Z(len(name)) }
func lastnew(name string) Z             { return Z(len(name)) }
func haskey[K comparable, V any](m map[K]V, k K) bool { _, ok := m[k]; return ok }
func statuscode(e error) uint32         { return 0 }
`

func load(repoDir string, pkgRel []string) (*Loaded, error) {
	L := &Loaded{Pkgs: map[string]*packages.Package{}, SSAPkgs: map[string]*ssa.Package{}, Contracts: map[string]*PkgContracts{},
		FuncCon: map[string]*FuncContract{}, Monitors: map[string]*MonitorDecl{}, GenText: map[string]string{}, RepoDir: repoDir}
	var patterns []string
	for _, p := range pkgRel {
		patterns = append(patterns, "./"+strings.TrimPrefix(p, "./"))
	}
	mode := packages.NeedName | packages.NeedFiles | packages.NeedCompiledGoFiles | packages.NeedImports | packages.NeedDeps |
		packages.NeedTypes | packages.NeedSyntax | packages.NeedTypesInfo | packages.NeedTypesSizes | packages.NeedModule
	env := append(os.Environ(), "GOFLAGS=-mod=mod", "GOPROXY=off")
	overlay := map[string][]byte{}
	for k, v := range extraOverlay {
		overlay[k] = v
	}
	cfg := &packages.Config{Mode: mode, Dir: repoDir, BuildFlags: []string{"-tags=verif"}, Env: env, Overlay: overlay}
	t0 := time.Now()
	pk1, err := packages.Load(cfg, patterns...)
	loadTimings = append(loadTimings, fmt.Sprintf("load1 %.1fs", time.Since(t0).Seconds()))
	if err != nil {
		return nil, err
	}
	// the listed packages plus every dependency inside the module that carries a contract file
	// (its functions are called by contract, so its clause functions must exist too)
	var withContracts []*packages.Package
	seenPkg := map[string]bool{}
	packages.Visit(pk1, nil, func(p *packages.Package) {
		if seenPkg[p.PkgPath] || !strings.HasPrefix(p.PkgPath, "google.golang.org/grpc") || len(p.GoFiles) == 0 {
			return
		}
		seenPkg[p.PkgPath] = true
		if _, err := os.Stat(filepath.Join(filepath.Dir(p.GoFiles[0]), contractFileName)); err == nil {
			withContracts = append(withContracts, p)
		}
	})
	for _, p := range pk1 {
		if len(p.Errors) > 0 {
			return nil, fmt.Errorf("package %s: %v", p.PkgPath, p.Errors[0])
		}
	}
	droppedClauseLines = map[string]map[int]bool{}
	round := 0
retry:
	round++
	for _, p := range withContracts {
		if len(p.Errors) > 0 {
			return nil, fmt.Errorf("package %s: %v", p.PkgPath, p.Errors[0])
		}
		dir := ""
		if len(p.GoFiles) > 0 {
			dir = filepath.Dir(p.GoFiles[0])
		}
		cf := filepath.Join(dir, contractFileName)
		if _, err := os.Stat(cf); err != nil {
			continue
		}
		pc, err := parseContractFile(cf)
		if err != nil {
			return nil, err
		}
		pc.PkgPath = p.PkgPath
		L.Contracts[p.PkgPath] = pc
		text, err := generateSpecFile(p, pc)
		if err != nil {
			return nil, err
		}
		L.GenText[p.PkgPath] = text
		overlay[filepath.Join(dir, genFileName)] = []byte(text)
	}
	cfg2 := &packages.Config{Mode: mode, Dir: repoDir, BuildFlags: []string{"-tags=verif"}, Env: env, Overlay: overlay}
	t0 = time.Now()
	pk2, err := packages.Load(cfg2, patterns...)
	loadTimings = append(loadTimings, fmt.Sprintf("load2 %.1fs", time.Since(t0).Seconds()))
	t0 = time.Now()
	if err != nil {
		return nil, err
	}
	// a clause that no longer type-checks against the edited code (e.g. a loop invariant that
	// names a local variable which was removed) is dropped and the load retried: its obligations
	// are then missing from the run and are reported against the baseline by name, while the
	// other contracts of the package are still checked
	if round <= 3 {
		droppedNow := false
		packages.Visit(pk2, nil, func(p *packages.Package) {
			pc := L.Contracts[p.PkgPath]
			if pc == nil {
				return
			}
			for _, e := range p.Errors {
				if m := contractErrRe.FindStringSubmatch(e.Error()); m != nil {
					var ln int
					fmt.Sscanf(m[1], "%d", &ln)
					if droppedClauseLines[pc.File] == nil {
						droppedClauseLines[pc.File] = map[int]bool{}
					}
					if !droppedClauseLines[pc.File][ln] {
						droppedClauseLines[pc.File][ln] = true
						droppedNow = true
						fmt.Fprintf(os.Stderr, "gcv: clause at %s:%d does not type-check against the current code and is dropped: %s\n", pc.File, ln, e.Error())
					}
				}
			}
		})
		if droppedNow {
			goto retry
		}
	}
	for _, p := range pk2 {
		if len(p.Errors) > 0 {
			msg := []string{}
			for _, e := range p.Errors {
				msg = append(msg, e.Error())
			}
			if os.Getenv("GCV_DUMPGEN") != "" {
				fmt.Fprintln(os.Stderr, L.GenText[p.PkgPath])
			}
			return nil, fmt.Errorf("package %s (with generated contracts file): %s", p.PkgPath, strings.Join(msg, "\n  "))
		}
	}
	prog, spkgs := ssautil.AllPackages(pk2, ssa.NaiveForm|ssa.InstantiateGenerics)
	L.Prog = prog
	for i, p := range pk2 {
		L.Pkgs[p.PkgPath] = p
		L.SSAPkgs[p.PkgPath] = spkgs[i]
		L.Fset = p.Fset
		spkgs[i].Build()
	}
	packages.Visit(pk2, nil, func(p *packages.Package) {
		if L.Contracts[p.PkgPath] == nil || L.Pkgs[p.PkgPath] != nil {
			return
		}
		if len(p.Errors) > 0 {
			err = fmt.Errorf("package %s (dependency, with generated contracts file): %v", p.PkgPath, p.Errors[0])
			return
		}
		if sp := prog.Package(p.Types); sp != nil {
			L.Pkgs[p.PkgPath] = p
			L.SSAPkgs[p.PkgPath] = sp
			sp.Build()
		}
	})
	if err != nil {
		return nil, err
	}
	loadTimings = append(loadTimings, fmt.Sprintf("ssa %.1fs", time.Since(t0).Seconds()))
	for path, pc := range L.Contracts {
		for _, fc := range pc.Funcs {
			fc.Pkg = path
			L.FuncCon[path+"."+fc.Key] = fc
		}
		for _, m := range pc.Monitors {
			L.Monitors[path+"."+m.Type+"."+m.Mu] = m // a type may declare several monitors (one per mutex field)
		}
	}
	return L, nil
}

// ---------------------------------------------------------------------------

type genCtx struct {
	p       *packages.Package
	imports map[string]string // path -> alias
	used    map[string]bool
	b       strings.Builder
	n       int
	bv      bool // current function is `arith bv`: variants are machine ints, not Z
	file    string
}

// clauses (by contract file and line) dropped in this load because they no longer type-check
var droppedClauseLines = map[string]map[int]bool{}
var contractErrRe = regexp.MustCompile(`zz_verif_contracts\.go:(\d+)`)
var rangeIndexNameRe = regexp.MustCompile(`^rangeindex(\d*)$`)

func (g *genCtx) qualifier(other *types.Package) string {
	if other == g.p.Types {
		return ""
	}
	alias, ok := g.imports[other.Path()]
	if !ok {
		alias = "gcvimp_" + sanitize(other.Path())
		g.imports[other.Path()] = alias
	}
	g.used[other.Path()] = true
	return alias
}

func findFuncDecl(p *packages.Package, key string) (*ast.FuncDecl, *ast.File) {
	recv, ptr, name := "", false, key
	if strings.HasPrefix(key, "(") {
		k := strings.Index(key, ").")
		if k < 0 {
			return nil, nil
		}
		recv = key[1:k]
		name = key[k+2:]
		if strings.HasPrefix(recv, "*") {
			ptr = true
			recv = recv[1:]
		}
	}
	for _, f := range p.Syntax {
		for _, d := range f.Decls {
			fd, ok := d.(*ast.FuncDecl)
			if !ok || fd.Name.Name != name {
				continue
			}
			if recv == "" {
				if fd.Recv == nil {
					return fd, f
				}
				continue
			}
			if fd.Recv == nil || len(fd.Recv.List) != 1 {
				continue
			}
			rt := fd.Recv.List[0].Type
			isPtr := false
			if s, ok := rt.(*ast.StarExpr); ok {
				isPtr = true
				rt = s.X
			}
			if ix, ok := rt.(*ast.IndexExpr); ok {
				rt = ix.X
			}
			if ix, ok := rt.(*ast.IndexListExpr); ok {
				rt = ix.X
			}
			id, ok := rt.(*ast.Ident)
			if !ok || id.Name != recv || isPtr != ptr {
				continue
			}
			return fd, f
		}
	}
	return nil, nil
}

// loops in source pre-order, not descending into function literals
func loopsOf(p *packages.Package, body ast.Node) []ast.Stmt {
	var out []ast.Stmt
	ast.Inspect(body, func(n ast.Node) bool {
		switch n := n.(type) {
		case *ast.FuncLit:
			return false
		case *ast.ForStmt:
			out = append(out, n)
		case *ast.RangeStmt:
			if n != body {
				if _, ok := p.TypesInfo.TypeOf(n.X).Underlying().(*types.Signature); ok {
					// range over a function: the body is a separate (yield) function, not a loop here
					return false
				}
			}
			out = append(out, n)
		}
		return true
	})
	return out
}

// free identifiers of an expression (not bound by function literals inside it)
func freeIdents(e ast.Expr) []string {
	seen := map[string]bool{}
	var out []string
	var walk func(n ast.Node, bound map[string]bool)
	walk = func(n ast.Node, bound map[string]bool) {
		switch n := n.(type) {
		case nil:
			return
		case *ast.Ident:
			if !bound[n.Name] && !seen[n.Name] {
				seen[n.Name] = true
				out = append(out, n.Name)
			}
		case *ast.SelectorExpr:
			walk(n.X, bound)
		case *ast.KeyValueExpr:
			walk(n.Value, bound)
		case *ast.FuncLit:
			nb := map[string]bool{}
			for k := range bound {
				nb[k] = true
			}
			if n.Type.Params != nil {
				for _, f := range n.Type.Params.List {
					for _, id := range f.Names {
						nb[id.Name] = true
					}
					walk(f.Type, bound)
				}
			}
			// locals declared in the body: approximate by collecting := and var names
			ast.Inspect(n.Body, func(m ast.Node) bool {
				switch m := m.(type) {
				case *ast.AssignStmt:
					if m.Tok == token.DEFINE {
						for _, l := range m.Lhs {
							if id, ok := l.(*ast.Ident); ok {
								nb[id.Name] = true
							}
						}
					}
				case *ast.ValueSpec:
					for _, id := range m.Names {
						nb[id.Name] = true
					}
				case *ast.RangeStmt:
					if m.Tok == token.DEFINE {
						if id, ok := m.Key.(*ast.Ident); ok {
							nb[id.Name] = true
						}
						if id, ok := m.Value.(*ast.Ident); ok {
							nb[id.Name] = true
						}
					}
				}
				return true
			})
			walk(n.Body, nb)
		default:
			ast.Inspect(n, func(m ast.Node) bool {
				if m == n {
					return true
				}
				if m == nil {
					return false
				}
				walk(m, bound)
				return false
			})
		}
	}
	walk(e, map[string]bool{})
	return out
}

type clauseParam struct {
	Name string
	Type types.Type
	Kind string // "local", "result"
	Res  int
	Decl token.Pos // local: position of the declaring identifier (which of several same-named variables)
}

func (g *genCtx) clauseParams(text string, scope *types.Scope, pos token.Pos, sig *types.Signature, where string) ([]clauseParam, error) {
	e, err := parser.ParseExpr(text)
	if err != nil {
		return nil, fmt.Errorf("%s: cannot parse clause %q: %v", where, text, err)
	}
	var ps []clauseParam
	for _, name := range freeIdents(e) {
		if rangeIndexNameRe.MatchString(name) {
			// rangeindex: the clause's own loop; rangeindexK: the K-th loop of the function
			// the hidden index of a `for range` loop over a slice/array/int: -1 before the first
			// iteration, k after k+1 iterations have started (loop clauses only)
			ps = append(ps, clauseParam{Name: name, Type: types.Typ[types.Int], Kind: "rangeindex"})
			continue
		}
		if name == "result" && sig != nil && sig.Results().Len() == 1 {
			ps = append(ps, clauseParam{Name: name, Type: sig.Results().At(0).Type(), Kind: "result", Res: 0})
			continue
		}
		if strings.HasPrefix(name, "result") && sig != nil {
			var k int
			if _, err := fmt.Sscanf(name, "result%d", &k); err == nil && k < sig.Results().Len() {
				ps = append(ps, clauseParam{Name: name, Type: sig.Results().At(k).Type(), Kind: "result", Res: k})
				continue
			}
		}
		if scope == nil {
			continue
		}
		_, obj := scope.LookupParent(name, pos)
		v, ok := obj.(*types.Var)
		if !ok {
			continue
		}
		if v.Parent() == g.p.Types.Scope() || v.Parent() == types.Universe || v.IsField() {
			continue
		}
		if v.Pkg() != g.p.Types {
			continue
		}
		// a local variable / parameter / named result
		cp := clauseParam{Name: name, Type: v.Type(), Kind: "local", Decl: v.Pos()}
		if sig != nil {
			for k := 0; k < sig.Results().Len(); k++ {
				if sig.Results().At(k) == v {
					cp.Kind = "result"
					cp.Res = k
				}
			}
		}
		ps = append(ps, cp)
	}
	sort.Slice(ps, func(i, j int) bool { return ps[i].Name < ps[j].Name })
	return ps, nil
}

func (g *genCtx) emitClause(c *Clause, prefix string, ps []clauseParam) {
	if droppedClauseLines[g.file][c.Line] {
		c.FnSym = ""
		return
	}
	g.n++
	c.FnSym = fmt.Sprintf("gcvC_%s_%d", prefix, g.n)
	var parts []string
	for _, p := range ps {
		if p.Kind == "local" && p.Decl.IsValid() {
			if c.ParamPos == nil {
				c.ParamPos = map[string]string{}
			}
			pp := g.p.Fset.Position(p.Decl)
			c.ParamPos[p.Name] = fmt.Sprintf("%s:%d", pp.Filename, pp.Offset)
		}
		parts = append(parts, p.Name+" "+types.TypeString(p.Type, g.qualifier))
	}
	ret := "bool"
	if c.Kind == "loopdec" {
		ret = "Z"
		if g.bv {
			ret = "int"
		}
	}
	// clauses of a generic function / method of a generic type are generic in the same parameters
	tps := ""
	seenTP := map[string]bool{}
	var tpNames []string
	for _, p := range ps {
		collectTypeParams(p.Type, seenTP, &tpNames, 0)
	}
	if len(tpNames) > 0 {
		tps = "[" + strings.Join(tpNames, ", ") + " any]"
	}
	fmt.Fprintf(&g.b, "//line %s:%d\nfunc %s%s(%s) %s { return %s }\n\n", contractFileName, c.Line, c.FnSym, tps, strings.Join(parts, ", "), ret, strings.ReplaceAll(c.Text, "\n", " "))
}

func collectTypeParams(t types.Type, seen map[string]bool, out *[]string, depth int) {
	if t == nil || depth > 6 {
		return
	}
	switch u := t.(type) {
	case *types.TypeParam:
		if n := u.Obj().Name(); !seen[n] {
			seen[n] = true
			*out = append(*out, n)
		}
	case *types.Pointer:
		collectTypeParams(u.Elem(), seen, out, depth+1)
	case *types.Slice:
		collectTypeParams(u.Elem(), seen, out, depth+1)
	case *types.Array:
		collectTypeParams(u.Elem(), seen, out, depth+1)
	case *types.Chan:
		collectTypeParams(u.Elem(), seen, out, depth+1)
	case *types.Map:
		collectTypeParams(u.Key(), seen, out, depth+1)
		collectTypeParams(u.Elem(), seen, out, depth+1)
	case *types.Named:
		if ta := u.TypeArgs(); ta != nil {
			for i := 0; i < ta.Len(); i++ {
				collectTypeParams(ta.At(i), seen, out, depth+1)
			}
		}
	case *types.Signature:
		for i := 0; i < u.Params().Len(); i++ {
			collectTypeParams(u.Params().At(i).Type(), seen, out, depth+1)
		}
		for i := 0; i < u.Results().Len(); i++ {
			collectTypeParams(u.Results().At(i).Type(), seen, out, depth+1)
		}
	}
}

func generateSpecFile(p *packages.Package, pc *PkgContracts) (string, error) {
	g := &genCtx{p: p, imports: map[string]string{}, used: map[string]bool{}, file: pc.File}
	for _, imp := range pc.Imports {
		f := strings.Fields(imp)
		if len(f) == 2 {
			g.imports[strings.Trim(f[1], `"`)] = f[0]
			g.used[strings.Trim(f[1], `"`)] = true
		} else if len(f) == 1 {
			path := strings.Trim(f[0], `"`)
			g.imports[path] = filepath.Base(path)
			g.used[path] = true
		}
	}
	for _, sf := range pc.Specs {
		fmt.Fprintf(&g.b, "//line %s:%d\n%s\n\n", contractFileName, sf.Line, sf.Text)
	}
	for _, gf := range pc.Ghosts {
		fmt.Fprintf(&g.b, "func ghost_%s(p *%s) (r %s) { return }\n\n", gf.Name, gf.Type, gf.GoType)
	}
	for _, m := range pc.Monitors {
		for _, c := range m.Invs {
			g.n++
			c.FnSym = fmt.Sprintf("gcvM_%s_%d", sanitize(m.Type), g.n)
			tps, targs := "", ""
			if obj := p.Types.Scope().Lookup(m.Type); obj != nil {
				if nt, ok := obj.Type().(*types.Named); ok && nt.TypeParams().Len() > 0 {
					// monitor of a generic type: the invariant is generic in the same parameters
					var ns []string
					for i := 0; i < nt.TypeParams().Len(); i++ {
						ns = append(ns, nt.TypeParams().At(i).Obj().Name())
					}
					tps, targs = "["+strings.Join(ns, ", ")+" any]", "["+strings.Join(ns, ", ")+"]"
				}
			}
			fmt.Fprintf(&g.b, "//line %s:%d\nfunc %s%s(self *%s%s) bool { return %s }\n\n", contractFileName, c.Line, c.FnSym, tps, m.Type, targs, strings.ReplaceAll(c.Text, "\n", " "))
		}
	}
	for _, fc := range pc.Funcs {
		prefix := sanitize(fc.Key)
		g.bv = fc.BV
		if fc.Lemma {
			// lemma: real function whose ensures are returned
			var rets, exprs []string
			for i, c := range fc.Ensures {
				rets = append(rets, fmt.Sprintf("r%d bool", i))
				exprs = append(exprs, strings.ReplaceAll(c.Text, "\n", " "))
			}
			fmt.Fprintf(&g.b, "//line %s:%d\nfunc %s%s (%s) {\n%s\nreturn %s\n}\n\n", contractFileName, fc.Line, fc.Key, fc.LemmaSig, strings.Join(rets, ", "), fc.Body, strings.Join(exprs, ", "))
			// requires clauses of a lemma: parameters only; parse signature to know the names
			for _, c := range fc.Requires {
				g.n++
				c.FnSym = fmt.Sprintf("gcvC_%s_%d", prefix, g.n)
				fmt.Fprintf(&g.b, "//line %s:%d\nfunc %s%s bool { return %s }\n\n", contractFileName, c.Line, c.FnSym, fc.LemmaSig, strings.ReplaceAll(c.Text, "\n", " "))
			}
			continue
		}
		fd, _ := findFuncDecl(p, strings.SplitN(fc.Key, "$", 2)[0])
		if fd == nil {
			// missing target: reported later as a violation of the property (contract target vanished)
			continue
		}
		var body *ast.BlockStmt = fd.Body
		var sig *types.Signature
		fscope := p.TypesInfo.Scopes[fd.Type]
		if strings.Contains(fc.Key, "$") {
			body, fscope, sig = findAnonFunc(p, fd, fc.Key)
			if body == nil {
				continue
			}
		} else if obj, ok := p.TypesInfo.Defs[fd.Name].(*types.Func); ok {
			sig = obj.Type().(*types.Signature)
		}
		if body == nil {
			continue
		}
		for _, c := range append(append([]*Clause{}, fc.Requires...), fc.Ensures...) {
			ps, err := g.clauseParams(c.Text, fscope, body.Lbrace+1, sig, fmt.Sprintf("%s:%d", pc.File, c.Line))
			if err != nil {
				return "", err
			}
			g.emitClause(c, prefix, ps)
		}
		// modifies entries: a function returning the base object of each entry
		fc.modClauses = make([]*Clause, len(fc.Modifies))
		for i, m := range fc.Modifies {
			if m == "*" || m == "nothing" {
				continue
			}
			base := m
			switch {
			case strings.HasSuffix(m, "[*]"):
				base = strings.TrimSuffix(m, "[*]")
			case strings.HasSuffix(m, ".*"):
				base = strings.TrimSuffix(m, ".*")
			default:
				k := strings.LastIndex(m, ".")
				if k < 0 {
					return "", fmt.Errorf("%s: modifies entry %q: expected base.field, base.*, base[*] or *", pc.File, m)
				}
				base = m[:k]
			}
			tv, err := types.Eval(p.Fset, p.Types, body.Lbrace+1, base)
			if err != nil {
				return "", fmt.Errorf("%s: modifies entry %q: %v", pc.File, m, err)
			}
			c := &Clause{Kind: "modbase", Text: base, Line: fc.Line}
			ps, err := g.clauseParams(base, fscope, body.Lbrace+1, sig, fmt.Sprintf("%s:%d", pc.File, fc.Line))
			if err != nil {
				return "", err
			}
			g.n++
			c.FnSym = fmt.Sprintf("gcvMod_%s_%d", prefix, g.n)
			var parts []string
			for _, pp := range ps {
				parts = append(parts, pp.Name+" "+types.TypeString(pp.Type, g.qualifier))
			}
			fmt.Fprintf(&g.b, "func %s(%s) %s { return %s }\n\n", c.FnSym, strings.Join(parts, ", "), types.TypeString(tv.Type, g.qualifier), base)
			fc.modClauses[i] = c
		}
		loops := loopsOf(p, body)
		ks := []int{}
		for k := range fc.LoopInv {
			ks = append(ks, k)
		}
		for k := range fc.LoopDec {
			if _, ok := fc.LoopInv[k]; !ok {
				ks = append(ks, k)
			}
		}
		sort.Ints(ks)
		for _, k := range ks {
			if k < 1 || k > len(loops) {
				// the loop a clause is attached to no longer exists (the function was restructured):
				// its obligations are then missing from the run, which the check reports against the
				// baseline; the rest of the contract is still checked
				fmt.Fprintf(os.Stderr, "gcv: %s: func %s has %d loops, clauses of loop %d dropped\n", pc.File, fc.Key, len(loops), k)
				delete(fc.LoopInv, k)
				delete(fc.LoopDec, k)
				continue
			}
			var lb *ast.BlockStmt
			switch l := loops[k-1].(type) {
			case *ast.ForStmt:
				lb = l.Body
			case *ast.RangeStmt:
				lb = l.Body
			}
			sc := p.Types.Scope().Innermost(lb.Lbrace)
			// the body block scope; parameters of the loop header live in its parent
			cl := append([]*Clause{}, fc.LoopInv[k]...)
			if d := fc.LoopDec[k]; d != nil {
				cl = append(cl, d)
			}
			cl = append(cl, fc.LoopExit[k]...)
			cl = append(cl, fc.LoopStep[k]...)
			for _, c := range cl {
				ps, err := g.clauseParams(c.Text, sc, lb.Lbrace, sig, fmt.Sprintf("%s:%d", pc.File, c.Line))
				if err != nil {
					return "", err
				}
				g.emitClause(c, prefix, ps)
			}
		}
		for _, c := range fc.CallAsrt {
			pos := findCallSite(p, body, c.Site)
			if pos == token.NoPos {
				continue
			}
			pp := p.Fset.Position(pos)
			c.SitePos = fmt.Sprintf("%s:%d", pp.Filename, pp.Offset)
			sc := p.Types.Scope().Innermost(pos)
			ps, err := g.clauseParams(c.Text, sc, pos, sig, fmt.Sprintf("%s:%d", pc.File, c.Line))
			if err != nil {
				return "", err
			}
			ps = append(ps, callArgParams(p, body, pos, c.Text)...)
			sort.Slice(ps, func(i, j int) bool { return ps[i].Name < ps[j].Name })
			g.emitClause(c, prefix, ps)
		}
		for _, c := range fc.RetAsrt {
			pos := findReturnSite(body, c.Site)
			if strings.HasSuffix(c.Site, "#end") {
				// the implicit return at the closing brace of a function without results: the
				// clause sees the function's outermost local scope (at the brace)
				pos = body.End() - 1
				c.SitePos = "end"
				sc := p.Types.Scope().Innermost(pos)
				ps, err := g.clauseParams(c.Text, sc, pos, sig, fmt.Sprintf("%s:%d", pc.File, c.Line))
				if err != nil {
					return "", err
				}
				g.emitClause(c, prefix, ps)
				continue
			}
			if pos == token.NoPos {
				fmt.Fprintf(os.Stderr, "gcv: %s: func %s has no %s, clause dropped\n", pc.File, fc.Key, c.Site)
				continue
			}
			pp := p.Fset.Position(pos)
			c.SitePos = fmt.Sprintf("%s:%d", pp.Filename, pp.Offset)
			sc := p.Types.Scope().Innermost(pos)
			ps, err := g.clauseParams(c.Text, sc, pos, sig, fmt.Sprintf("%s:%d", pc.File, c.Line))
			if err != nil {
				return "", err
			}
			g.emitClause(c, prefix, ps)
		}
	}
	var hdr strings.Builder
	hdr.WriteString("//go:build verif\n\n// Code generated by gcv from " + contractFileName + "; exists only in the go/packages overlay. DO NOT EDIT.\n\npackage " + p.Name + "\n\n")
	paths := []string{}
	for path := range g.used {
		paths = append(paths, path)
	}
	sort.Strings(paths)
	if len(paths) > 0 {
		hdr.WriteString("import (\n")
		for _, path := range paths {
			if !strings.Contains(g.b.String(), g.imports[path]+".") {
				continue
			}
			fmt.Fprintf(&hdr, "\t%s %q\n", g.imports[path], path)
		}
		hdr.WriteString(")\n\n")
		for _, path := range paths {
			_ = path
		}
	}
	hdr.WriteString(specPreludeGo)
	hdr.WriteString("\n")
	return hdr.String() + g.b.String(), nil
}

// findFuncLit finds the k-th function literal (ssa naming outer$k) inside fd.
func findFuncLit(fd *ast.FuncDecl, key string) *ast.FuncLit {
	parts := strings.Split(key, "$")
	var cur ast.Node = fd.Body
	var lit *ast.FuncLit
	for _, ks := range parts[1:] {
		var k int
		fmt.Sscanf(ks, "%d", &k)
		n := 0
		lit = nil
		ast.Inspect(cur, func(m ast.Node) bool {
			if lit != nil {
				return false
			}
			if fl, ok := m.(*ast.FuncLit); ok {
				n++
				if n == k {
					lit = fl
				}
				return false
			}
			return true
		})
		if lit == nil {
			return nil
		}
		cur = lit.Body
	}
	return lit
}

// findCallSite returns the position of the k-th call (source order) whose callee name matches site "name#k".
func findCallSite(p *packages.Package, body ast.Node, site string) token.Pos {
	name, k := site, 1
	if i := strings.LastIndex(site, "#"); i >= 0 {
		name = site[:i]
		fmt.Sscanf(site[i+1:], "%d", &k)
	}
	n := 0
	res := token.NoPos
	ast.Inspect(body, func(m ast.Node) bool {
		if res != token.NoPos {
			return false
		}
		if _, ok := m.(*ast.FuncLit); ok {
			return false
		}
		if ss, ok := m.(*ast.SendStmt); ok && name == "chansend" {
			// pseudo call site: the k-th channel send statement (arg0 the channel, arg1 the value)
			n++
			if n == k {
				res = ss.Arrow
			}
			return true
		}
		ce, ok := m.(*ast.CallExpr)
		if !ok {
			return true
		}
		var id *ast.Ident
		switch f := ce.Fun.(type) {
		case *ast.Ident:
			id = f
		case *ast.SelectorExpr:
			id = f.Sel
		}
		if id != nil && id.Name == name {
			n++
			if n == k {
				res = ce.Lparen
			}
		}
		return true
	})
	return res
}

var loadTimings []string

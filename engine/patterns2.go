package main

// Patterns for two-variable quantifiers (forall2): an array read whose index
// is the inner variable (or offset + inner variable) and whose array term
// mentions the outer variable, e.g. vHosts[v].Domains[d]. One such term binds
// both variables.
func autoPatterns2(body string, bvs []string) []string {
	root := parseSexp(body)
	if root == nil {
		return nil
	}
	seen := map[string]bool{}
	var out []string
	simpleIdx := func(idx *sexp, bv string) bool {
		if idx.kids == nil {
			return idx.atom == bv
		}
		if idx.head() == "+" && len(idx.kids) == 3 {
			a, b := idx.kids[1], idx.kids[2]
			return (a.kids == nil && a.atom == bv && !b.contains(bv)) || (b.kids == nil && b.atom == bv && !a.contains(bv))
		}
		return false
	}
	var walk func(n *sexp)
	walk = func(n *sexp) {
		if n.kids == nil {
			return
		}
		if n.head() == "select" && len(n.kids) == 3 && !n.hasBinder() {
			arr, idx := n.kids[1], n.kids[2]
			for i := 0; i < 2; i++ {
				inner, outer := bvs[i], bvs[1-i]
				if simpleIdx(idx, inner) && arr.contains(outer) && !arr.contains(inner) {
					s := n.String()
					if !seen[s] && len(out) < 4 {
						seen[s] = true
						out = append(out, s)
					}
				}
			}
		}
		for _, k := range n.kids {
			walk(k)
		}
	}
	walk(root)
	return out
}

package main

// Main executor: runs a function under contract and produces obligations.

import (
	"fmt"
	"go/token"
	"go/types"
	"sort"
	"strings"

	"golang.org/x/tools/go/ssa"
)

const (
	tokLSS = token.LSS
	tokGTR = token.GTR
)

func funcKey(f *ssa.Function) string {
	o := f
	if f.Origin() != nil {
		o = f.Origin()
	}
	pkg := ""
	if o.Pkg != nil {
		pkg = o.Pkg.Pkg.Path()
	} else if o.Parent() != nil {
		p := o
		for p.Parent() != nil {
			p = p.Parent()
		}
		if p.Pkg != nil {
			pkg = p.Pkg.Pkg.Path()
		}
	}
	return pkg + "." + funcRel(o)
}

func funcRel(o *ssa.Function) string {
	if o.Parent() != nil {
		// anonymous: parentRel$k  (ssa names them parent$k)
		root := o
		for root.Parent() != nil {
			root = root.Parent()
		}
		suffix := strings.TrimPrefix(o.Name(), root.Name())
		return funcRel(root) + suffix
	}
	if recv := o.Signature.Recv(); recv != nil {
		t := recv.Type()
		ptr := false
		if p, ok := t.(*types.Pointer); ok {
			ptr = true
			t = p.Elem()
		}
		tn := ""
		if n, ok := t.(*types.Named); ok {
			tn = n.Obj().Name()
		}
		if ptr {
			return "(*" + tn + ")." + o.Name()
		}
		return "(" + tn + ")." + o.Name()
	}
	return o.Name()
}

func newExec(L *Loaded, fn *ssa.Function, fc *FuncContract) *Exec {
	x := &Exec{L: L, X: newXlat(), fn: fn, fc: fc, comps: map[string]string{}, assumed: map[string]bool{}, abstracts: map[string]bool{}, inlined: map[string]bool{}}
	for _, p := range L.Pkgs {
		x.X.specPkgs[p.Types] = true
	}
	x.fkey = funcKey(fn)
	pkgName := ""
	if fn.Pkg != nil {
		pkgName = fn.Pkg.Pkg.Name()
	} else {
		root := fn
		for root.Parent() != nil {
			root = root.Parent()
		}
		if root.Pkg != nil {
			pkgName = root.Pkg.Pkg.Name()
		}
	}
	x.short = pkgName + "." + funcRel(fn)
	if fc != nil && fc.BV {
		x.X.bvMode = true
	}
	return x
}

func (x *Exec) run() {
	for pass := 0; pass < 4; pass++ {
		x.newComp = false
		x.pass()
		if !x.newComp {
			return
		}
	}
}

func (x *Exec) posKey(p token.Pos) string {
	pp := x.L.Fset.Position(p)
	return fmt.Sprintf("%s:%d", pp.Filename, pp.Offset)
}

func (x *Exec) props() []string {
	if x.fc != nil {
		return x.fc.Props
	}
	return nil
}

func (x *Exec) pass() {
	x.out.Reset()
	x.nfr = 0
	x.vals = map[ssa.Value]Val{}
	x.obls = nil
	x.ordinals = map[string]int{}
	x.errs = nil
	x.exitSt = map[*ssa.BasicBlock]*State{}
	x.edgeCond = map[[2]int]Term{}
	x.calls = map[string]int{}
	x.paramVals = map[string]Val{}
	x.deferred = nil
	x.inCrit = false
	x.backEdgeCount = map[*ssa.BasicBlock]int{}
	x.psums = nil
	x.psumUnfolded = nil
	x.aliases = nil
	x.skipRecouple = false
	x.X.decls = nil
	x.X.declSeen = map[string]bool{}
	x.X.structSorts = map[string]*structSort{}
	x.findLoops()
	fn := x.fn

	st := &State{live: "true", cells: map[*ssa.Alloc]Term{}, heap: map[string]Term{}, allocTop: "alloc@0"}
	x.declConst("alloc@0", "Int")
	x.assertGlobal("(>= alloc@0 0)")
	for _, c := range x.compOrder {
		x.declConst(c+"@0", x.comps[c])
		if strings.HasPrefix(c, "Ghost_calls_") || strings.HasPrefix(c, "Ghost_atom_nch_") {
			x.assertGlobal(eq(c+"@0", "0")) // call counters start at zero
		}
		st.heap[c] = c + "@0"
	}
	x.entry = st.clone()
	// parameters
	for _, p := range fn.Params {
		name := "in_" + sanitize(p.Name())
		x.declConst(name, x.X.sortOf(p.Type()))
		x.assume(st, x.typeInv(p.Type(), name, st))
		x.vals[p] = Val{T: name}
		x.paramVals[p.Name()] = Val{T: name}
	}
	for _, fv := range fn.FreeVars {
		name := "fv_" + sanitize(fv.Name())
		x.declConst(name, "Int")
		x.assume(st, and(sx(">", name, "0"), sx("<=", name, st.allocTop)))
		x.vals[fv] = Val{T: name}
	}
	// captured variables are distinct variables: their cells do not alias each other
	if len(fn.FreeVars) > 1 {
		var names []string
		for _, fv := range fn.FreeVars {
			names = append(names, "fv_"+sanitize(fv.Name()))
		}
		x.assume(st, sx(append([]string{"distinct"}, names...)...))
	}
	x.holdAtEntry(st)
	if fn.TypeParams().Len() > 0 || (fn.Signature.Recv() != nil && recvIsGeneric(fn.Signature.Recv().Type())) {
		x.assumed[x.short+": verified on the generic body -- type parameters are opaque (their values are only moved, stored and compared by identity), so the result holds for every instantiation"] = true
	}
	// receiver is non-nil for pointer-receiver methods under contract (stated assumption: callers
	// reach the method through a non-nil receiver; a nil receiver panics before any property matters)
	x.entry.live = st.live
	x.yieldEntry(st)
	// requires
	if x.fc != nil {
		var pres []Term
		for _, c := range x.fc.Requires {
			t := x.evalClause(c, fn, st, x.entry, nil, true)
			pres = append(pres, t)
		}
		pre := and(pres...)
		x.assume(st, pre)
		// vacuity guard: the precondition must be satisfiable
		o := &Obligation{Name: x.short + ":pre-sat", Kind: "pre-sat", Props: x.props(), Prefix: x.out.Len(), Live: st.live, Goal: "false", Canary: true, Func: x.short}
		x.obls = append(x.obls, o)
	}
	x.entry.live = st.live
	x.entry.allocTop = st.allocTop

	order := x.topoOrder()
	type retInfo struct {
		cond Term
		st   *State
		vals []Val
	}
	var rets []retInfo
	blockEntry := map[*ssa.BasicBlock]*State{}
	loopEntryVariant := map[*ssa.BasicBlock]Term{}
	for _, b := range order {
		var bst *State
		var edges []inEdge
		if b.Index == 0 {
			bst = st
		} else {
			for _, p := range b.Preds {
				if x.backEdge[[2]int{p.Index, b.Index}] {
					continue
				}
				ps, ok := x.exitSt[p]
				if !ok {
					continue // unreachable predecessor
				}
				cond, ok := x.edgeCond[[2]int{p.Index, b.Index}]
				if !ok {
					continue
				}
				edges = append(edges, inEdge{cond: cond, st: ps, from: p})
			}
			bst = x.mergeStates(edges, fmt.Sprintf("b%d", b.Index))
		}
		if li := x.loops[b]; li != nil {
			x.loopHead(li, bst, loopEntryVariant)
		}
		blockEntry[b] = bst
		f := &frame{x: x, fn: fn, st: bst}
		f.mem[0] = stateView{x, bst}
		f.mem[1] = stateView{x, x.entry}
		for _, in := range b.Instrs {
			switch in := in.(type) {
			case *ssa.Phi:
				if x.loops[b] != nil {
					x.vals[in] = Val{T: x.havocValue(bst, in.Type(), "phi")}
					continue
				}
				var vs []Val
				var es []inEdge
				for _, e := range edges {
					for i, p := range b.Preds {
						if p == e.from {
							vs = append(vs, x.val(in.Edges[i]))
							es = append(es, e)
						}
					}
				}
				if len(vs) == 0 {
					x.vals[in] = Val{T: x.X.zero(in.Type())}
				} else {
					x.vals[in] = x.mergeVals(es, vs, in.Type(), in.Name())
				}
			case *ssa.If:
				c := x.val(in.Cond).T
				x.edgeCond[[2]int{b.Index, b.Succs[0].Index}] = x.define(x.fresh("edge"), "Bool", and(bst.live, c))
				x.edgeCond[[2]int{b.Index, b.Succs[1].Index}] = x.define(x.fresh("edge"), "Bool", and(bst.live, not(c)))
			case *ssa.Jump:
				x.edgeCond[[2]int{b.Index, b.Succs[0].Index}] = bst.live
			case *ssa.Return:
				var vs []Val
				for _, r := range in.Results {
					vs = append(vs, x.val(r))
				}
				x.returnAssertions(bst, in, vs)
				rets = append(rets, retInfo{cond: bst.live, st: bst, vals: vs})
			case *ssa.Panic:
				// reaching an explicit panic is a safety violation unless the contract allows it
				if x.fc == nil || x.fc.Opts["maypanic"] == "" {
					x.safety(bst, "panic", "false", in.Pos())
				}
			default:
				x.step(f, in)
			}
		}
		x.exitSt[b] = bst
		x.loopExitAssertions(b, bst)
		// back edges out of b
		for _, s := range b.Succs {
			if x.backEdge[[2]int{b.Index, s.Index}] {
				cond := x.edgeCond[[2]int{b.Index, s.Index}]
				x.loopBack(x.loops[s], bst, cond, loopEntryVariant)
			}
		}
	}
	// function exit
	if len(rets) == 0 {
		return
	}
	var edges []inEdge
	for _, r := range rets {
		edges = append(edges, inEdge{cond: r.cond, st: r.st})
	}
	exit := x.mergeStates(edges, "exit")
	nres := fn.Signature.Results().Len()
	x.retVals = nil
	for k := 0; k < nres; k++ {
		var vs []Val
		for _, r := range rets {
			vs = append(vs, r.vals[k])
		}
		x.retVals = append(x.retVals, x.mergeVals(edges, vs, fn.Signature.Results().At(k).Type(), fmt.Sprintf("ret%d", k)))
	}
	if x.fc != nil {
		if x.fc.Lemma {
			for k := range x.fc.Ensures {
				o := x.oblige(exit, "lemma", fmt.Sprintf("lemma:%d", k+1), x.retVals[k].T, fn.Pos(), false, x.props())
				o.Clause = x.fc.Ensures[k].Text
				o.Line = x.fc.Ensures[k].Line
			}
		} else {
			for k, c := range x.fc.Ensures {
				t := x.evalClause(c, fn, exit, x.entry, x.retVals, true)
				// reachability canary: the exit must be reachable, otherwise the post holds vacuously
				o := x.oblige(exit, "post", fmt.Sprintf("post:%d", k+1), t, fn.Pos(), false, x.props())
				o.Clause = c.Text
				o.Line = c.Line
			}
		}
		co := &Obligation{Name: x.short + ":exit-reach", Kind: "exit-reach", Props: x.props(), Prefix: x.out.Len(), Live: exit.live, Goal: "false", Canary: true, Func: x.short}
		x.obls = append(x.obls, co)
	}
}

// loopHead: check invariants on entry, havoc what the loop modifies, assume invariants.
func (x *Exec) loopHead(li *loopInfo, st *State, variants map[*ssa.BasicBlock]Term) {
	var invs []*Clause
	var dec *Clause
	if x.fc != nil {
		invs = x.fc.LoopInv[li.ordinal]
		dec = x.fc.LoopDec[li.ordinal]
	}
	if len(invs) == 0 {
		x.abstract(fmt.Sprintf("loop %d has no invariant (everything it modifies is havocked)", li.ordinal))
	}
	for k, c := range invs {
		t := x.evalClause(c, x.fn, st, x.entry, nil, false)
		o := x.oblige(st, "loop-init", fmt.Sprintf("loop%d-init:%d", li.ordinal, k+1), t, li.head.Instrs[0].Pos(), false, x.props())
		o.Clause, o.Line = c.Text, c.Line
	}
	for _, a := range x.rangeIndexCells(li) {
		if t, ok := st.cells[a]; ok {
			x.oblige(st, "loop-init", fmt.Sprintf("loop%d-init:rangeindex", li.ordinal), x.rangeIndexInv(li, a, t), li.head.Instrs[0].Pos(), false, x.props())
		}
	}
	cells, all, comps := x.loopModifies(li)
	var cl []*ssa.Alloc
	for a := range cells {
		cl = append(cl, a)
	}
	sort.Slice(cl, func(i, j int) bool { return cl[i].Name() < cl[j].Name() })
	for _, a := range cl {
		if _, ok := st.cells[a]; !ok {
			continue // declared inside the loop: re-initialised by its Alloc
		}
		ct := deref(a.Type())
		c := x.havocConst("c_"+a.Name()+"@loop", x.X.sortOf(ct))
		st.cells[a] = c
		x.assume(st, x.typeInv(ct, c, st))
	}
	if all {
		x.havocHeapAll(st)
		st.allocTop = x.havocAllocTop(st)
	} else {
		var cs []string
		for c := range comps {
			cs = append(cs, c)
		}
		sort.Strings(cs)
		for _, c := range cs {
			st.heap[c] = x.havocConst(c+"@loop", x.comps[c])
		}
		st.allocTop = x.havocAllocTop(st)
	}
	// ghost call counters and the last random draw may change in any loop that makes calls
	for _, c := range x.compOrder {
		if strings.HasPrefix(c, "Ghost_ret_") && !x.loopCallsNamed(li, strings.TrimPrefix(c, "Ghost_ret_")) {
			continue // no call of that name in the loop (callees inlined in the loop are not searched: see loopCallsNamed)
		}
		if strings.HasPrefix(c, "Ghost_calls_") && !x.loopCallsNamed(li, strings.TrimPrefix(c, "Ghost_calls_")) {
			continue
		}
		if strings.HasPrefix(c, "Ghost_atom_") && !x.loopTouchesFieldNamed(li, c[len("Ghost_atom_nch_"):]) {
			continue
		}
		if strings.HasPrefix(c, "Ghost_calls_") || strings.HasPrefix(c, "Ghost_last") || strings.HasPrefix(c, "Ghost_ret_") || strings.HasPrefix(c, "Ghost_atom_") {
			st.heap[c] = x.havocConst(c+"@loop", x.comps[c])
		}
	}
	for _, c := range invs {
		x.assume(st, x.evalClause(c, x.fn, st, x.entry, nil, false))
	}
	if x.headStates == nil {
		x.headStates = map[*ssa.BasicBlock]*State{}
	}
	x.headStates[li.head] = st.clone() // for athead(e) in assertions inside the loop body
	for _, a := range x.rangeIndexCells(li) {
		// hidden index of `for range` over a slice/array: starts at -1 and is only incremented
		if t, ok := st.cells[a]; ok {
			x.assume(st, x.rangeIndexInv(li, a, t))
		}
	}
	if len(invs) > 0 {
		// vacuity guard: invariants together with the path condition must be satisfiable
		x.obls = append(x.obls, &Obligation{Name: fmt.Sprintf("%s:loop%d-reach", x.short, li.ordinal), Kind: "loop-reach", Props: x.props(), Prefix: x.out.Len(), Live: st.live, Goal: "false", Canary: true, Func: x.short})
	}
	if dec != nil {
		v := x.evalClause(dec, x.fn, st, x.entry, nil, false)
		vsort := "Int"
		if x.X.bvMode {
			vsort = "(_ BitVec 64)"
		}
		variants[li.head] = x.define(x.fresh("variant"), vsort, v)
	}
}

func (x *Exec) havocAllocTop(st *State) Term {
	c := x.havocConst("alloc@loop", "Int")
	x.assume(st, sx(">=", c, st.allocTop))
	return c
}

func (x *Exec) loopBack(li *loopInfo, st *State, cond Term, variants map[*ssa.BasicBlock]Term) {
	if li == nil || x.fc == nil {
		return
	}
	bs := st.clone()
	bs.live = cond
	// several back edges (e.g. `continue` and the end of the body): one obligation per edge,
	// told apart by the ordinal of the edge; a loop with one back edge keeps the plain name
	x.backEdgeCount[li.head]++
	edge := ""
	if n := x.backEdgeCount[li.head]; n > 1 {
		edge = fmt.Sprintf("@edge%d", n)
	}
	for _, a := range x.rangeIndexCells(li) {
		if t, ok := bs.cells[a]; ok {
			x.oblige(bs, "loop-preserve", fmt.Sprintf("loop%d-preserve:rangeindex%s", li.ordinal, edge), x.rangeIndexInv(li, a, t), li.head.Instrs[0].Pos(), false, x.props())
		}
	}
	for k, c := range x.fc.LoopInv[li.ordinal] {
		t := x.evalClause(c, x.fn, bs, x.entry, nil, false)
		o := x.oblige(bs, "loop-preserve", fmt.Sprintf("loop%d-preserve:%d%s", li.ordinal, k+1, edge), t, li.head.Instrs[0].Pos(), false, x.props())
		o.Clause, o.Line = c.Text, c.Line
	}
	for k, c := range x.fc.LoopStep[li.ordinal] {
		// one iteration: athead(e) / old(e) read the state at the head of this iteration
		hs := x.headStates[li.head]
		if hs == nil {
			hs = x.entry
		}
		t := x.evalClause(c, x.fn, bs, hs, nil, false)
		o := x.oblige(bs, "loop-preserve", fmt.Sprintf("loop%d-step:%d%s", li.ordinal, k+1, edge), t, li.head.Instrs[0].Pos(), false, x.props())
		o.Clause, o.Line = c.Text, c.Line
	}
	if dec := x.fc.LoopDec[li.ordinal]; dec != nil {
		v := x.evalClause(dec, x.fn, bs, x.entry, nil, false)
		v0 := variants[li.head]
		goal := and(sx(">=", v0, "0"), sx("<", v, v0))
		if x.X.bvMode {
			goal = and(sx("bvsge", v0, "(_ bv0 64)"), sx("bvslt", v, v0))
		}
		o := x.oblige(bs, "loop-variant", fmt.Sprintf("loop%d-variant%s", li.ordinal, edge), goal, li.head.Instrs[0].Pos(), false, x.props())
		o.Clause, o.Line = dec.Text, dec.Line
	}
}

// evalClause evaluates a generated clause function in the given state.
// Parameters are bound by name: entry values for function parameters when
// entryParams is true (requires/ensures), current cell values otherwise.
func (x *Exec) evalClause(c *Clause, target *ssa.Function, cur, old *State, results []Val, entryParams bool) Term {
	d := x.evalClauseDual(c, target, cur, old, results, entryParams, nil)
	return d[0].T
}

func (x *Exec) clauseFn(c *Clause, pkgPath string) *ssa.Function {
	sp := x.L.SSAPkgs[pkgPath]
	if sp == nil || c.FnSym == "" {
		return nil
	}
	return sp.Func(c.FnSym)
}

func pkgPathOf(fn *ssa.Function) string {
	root := fn
	if root.Origin() != nil {
		root = root.Origin()
	}
	for root.Parent() != nil {
		root = root.Parent()
	}
	if root.Pkg != nil {
		return root.Pkg.Pkg.Path()
	}
	return ""
}

func (x *Exec) evalClauseDual(c *Clause, target *ssa.Function, cur, old *State, results []Val, entryParams bool, argOverride map[string]dual) dual {
	cf := x.clauseFn(c, pkgPathOf(target))
	if cf == nil {
		x.errorf("clause function for %q (line %d) not found", c.Text, c.Line)
		// a clause that no longer type-checks against the code: its truth is unknown. As a
		// hypothesis an unconstrained Boolean assumes nothing (and keeps the path satisfiable);
		// as a goal it cannot be proved, so the obligation is reported as failed by name.
		return dualOf(Val{T: x.havocConst("dropped_clause", "Bool")})
	}
	var args []dual
	for _, p := range cf.Params {
		name := p.Name()
		if d, ok := argOverride[name]; ok {
			args = append(args, d)
			continue
		}
		if m := rangeIndexNameRe.FindStringSubmatch(name); m != nil && target == x.fn {
			bound := false
			want := c.Loop
			if m[1] != "" {
				fmt.Sscanf(m[1], "%d", &want)
			}
			for _, li := range x.loops {
				if li.ordinal != want {
					continue
				}
				for _, a := range x.rangeIndexCells(li) {
					if t, ok := cur.cells[a]; ok {
						args = append(args, dualOf(Val{T: t}))
						bound = true
					}
					break
				}
			}
			if bound {
				continue
			}
		}
		if results != nil {
			if name == "result" && len(results) >= 1 {
				args = append(args, dualOf(results[0]))
				continue
			}
			var k int
			if _, err := fmt.Sscanf(name, "result%d", &k); err == nil && strings.HasPrefix(name, "result") && k < len(results) {
				args = append(args, dualOf(results[k]))
				continue
			}
			// named result
			found := false
			res := target.Signature.Results()
			for k := 0; k < res.Len(); k++ {
				if res.At(k).Name() == name && k < len(results) {
					args = append(args, dualOf(results[k]))
					found = true
					break
				}
			}
			if found {
				continue
			}
		}
		if target == x.fn {
			if entryParams {
				if v, ok := x.paramVals[name]; ok {
					args = append(args, dualOf(v))
					continue
				}
			}
			if a := x.allocNamedAt(name, p.Type(), c.ParamPos[name]); a != nil {
				t, ok := cur.cells[a]
				if !ok {
					t = x.X.zero(deref(a.Type()))
				}
				if a.Heap {
					// escaping local: value lives in a box
					t = x.loadAddr(stateView{x, cur}, x.addrOf(x.vals[a], deref(a.Type())))
				}
				ov := Val{T: t}
				if v, ok := x.paramVals[name]; ok {
					ov = v
				}
				if old != x.entry && old != cur && !a.Heap {
					// second view is a loop-head state (athead): the local's value there
					if ot, ok := old.cells[a]; ok {
						ov = Val{T: ot}
					}
				}
				args = append(args, dual{Val{T: t}, ov})
				continue
			}
			if v, ok := x.paramVals[name]; ok {
				args = append(args, dualOf(v))
				continue
			}
			// captured variable of an anonymous function
			okfv := false
			for _, fv := range target.FreeVars {
				if fv.Name() == name {
					a := x.addrOf(x.vals[fv], deref(fv.Type()))
					cv, ov := x.loadAddr(stateView{x, cur}, a), x.loadAddr(stateView{x, old}, a)
					// the captured variable holds a well-typed value in both states
					x.assume(cur, and(x.typeInvTop(deref(fv.Type()), cv, cur.allocTop), x.typeInvTop(deref(fv.Type()), ov, old.allocTop)))
					args = append(args, dual{Val{T: cv}, Val{T: ov}})
					okfv = true
					break
				}
			}
			if okfv {
				continue
			}
		}
		x.errorf("clause %q: cannot bind %s", c.Text, name)
		args = append(args, dualOf(Val{T: x.X.zero(p.Type())}))
	}
	// loads performed by the clause yield well-typedness facts (ranges of loaded integers,
	// non-negative lengths, ...) that hold in any state; they are assumed on the current path
	saveC, saveF := x.collectFacts, x.pureFacts
	x.collectFacts, x.pureFacts = true, nil
	d := x.evalPure(cf, args, nil, [2]memView{stateView{x, cur}, stateView{x, old}}, 0)
	facts := x.pureFacts
	x.collectFacts, x.pureFacts = saveC, saveF
	if len(facts) > 0 {
		x.assume(cur, and(dedup(facts)...))
	}
	return d
}

func dedup(ts []Term) []Term {
	seen := map[string]bool{}
	var out []Term
	for _, t := range ts {
		if !seen[t] {
			seen[t] = true
			out = append(out, t)
		}
	}
	return out
}

// allocNamedAt: the local variable cell declared at the given position (the variable the
// type checker resolved the clause's identifier to, when several locals share the name);
// falls back to allocNamed.
func (x *Exec) allocNamedAt(name string, t types.Type, declPos string) *ssa.Alloc {
	if declPos != "" {
		for _, b := range x.fn.Blocks {
			for _, in := range b.Instrs {
				if a, ok := in.(*ssa.Alloc); ok && a.Comment == name && a.Pos().IsValid() && x.posKey(a.Pos()) == declPos {
					return a
				}
			}
		}
	}
	return x.allocNamed(name, t)
}

// allocNamed finds the local variable cell with the given source name (the
// innermost one declared last is preferred when names are reused).
func (x *Exec) allocNamed(name string, t types.Type) *ssa.Alloc {
	var best *ssa.Alloc
	for _, b := range x.fn.Blocks {
		for _, in := range b.Instrs {
			if a, ok := in.(*ssa.Alloc); ok && a.Comment == name {
				if types.Identical(deref(a.Type()), t) || best == nil {
					if best == nil || types.Identical(deref(a.Type()), t) && !types.Identical(deref(best.Type()), t) {
						best = a
					}
				}
			}
		}
	}
	return best
}

// rangeIndexCells: hidden index variables of `for range` loops over slices,
// arrays and integers whose loop head is li.head.
func (x *Exec) rangeIndexCells(li *loopInfo) []*ssa.Alloc {
	if x.X.bvMode || !strings.HasPrefix(li.head.Comment, "rangeindex") {
		return nil
	}
	var out []*ssa.Alloc
	for _, in := range li.head.Instrs {
		if ld, ok := in.(*ssa.UnOp); ok && ld.Op == token.MUL {
			if a, ok := ld.X.(*ssa.Alloc); ok && a.Comment == "rangeindex" {
				out = append(out, a)
			}
		}
	}
	return out
}

// rangeIndexInv: the engine-supplied invariant of a `for range` loop over a
// slice/array/integer: -1 <= hidden index < bound, where bound is the length
// evaluated once before the loop. It is checked like any other invariant
// (init and preserve obligations) before being assumed at the loop head.
func (x *Exec) rangeIndexInv(li *loopInfo, a *ssa.Alloc, cur Term) Term {
	inv := sx(">=", cur, "(- 1)")
	for _, in := range li.head.Instrs {
		if cmp, ok := in.(*ssa.BinOp); ok && cmp.Op == token.LSS {
			if bv, ok := x.vals[cmp.Y]; ok && bv.T != "" {
				inv = and(inv, sx("<", cur, sx("imax", bv.T, "0")))
			} else if c, ok := cmp.Y.(*ssa.Const); ok {
				inv = and(inv, sx("<", cur, sx("imax", x.constVal(c).T, "0")))
			}
		}
	}
	return inv
}

// loopExitAssertions: `loop K exit EXPR` holds on every edge that leaves loop K
// (the head's exit branch, a break; a return inside the loop is a return site).
func (x *Exec) loopExitAssertions(b *ssa.BasicBlock, bst *State) {
	if x.fc == nil || len(x.fc.LoopExit) == 0 {
		return
	}
	for _, li := range x.loops {
		cls := x.fc.LoopExit[li.ordinal]
		if len(cls) == 0 || !(li.body[b] || li.head == b) {
			continue
		}
		for _, s := range b.Succs {
			if li.body[s] || li.head == s {
				continue
			}
			if n := len(s.Instrs); n > 0 {
				// leaving the loop by a `return` (or panic) written inside it is a return site, not
				// a loop exit; the block the loop's own guard exits to is always a loop exit, even
				// when the function returns right after the loop
				afterLoop := false
				for _, hs := range li.head.Succs {
					if hs == s {
						afterLoop = true
					}
				}
				switch s.Instrs[n-1].(type) {
				case *ssa.Return, *ssa.Panic:
					if !afterLoop {
						continue
					}
				}
			}
			cond, ok := x.edgeCond[[2]int{b.Index, s.Index}]
			if !ok {
				continue
			}
			est := bst.clone()
			est.live = cond
			en := x.ordinal(fmt.Sprintf("loop%d-exit", li.ordinal))
			x.obls = append(x.obls, &Obligation{Name: fmt.Sprintf("%s:reach:loop%d-exit@e%d", x.short, li.ordinal, en), Kind: "site-reach", Props: x.props(), Prefix: x.out.Len(), Live: est.live, Goal: "false", Canary: true, Func: x.short})
			for k, c := range cls {
				oldSt := x.entry
				if strings.Contains(c.Text, "athead(") {
					if hs := x.headStates[li.head]; hs != nil {
						oldSt = hs
					}
				}
				t := x.evalClause(c, x.fn, est, oldSt, nil, false)
				o := x.oblige(est, "assert", fmt.Sprintf("loop%d-exit:%d@e%d", li.ordinal, k+1, en), t, b.Instrs[len(b.Instrs)-1].Pos(), false, x.props())
				o.Clause, o.Line = c.Text, c.Line
			}
		}
	}
}

func recvIsGeneric(t types.Type) bool {
	if p, ok := t.(*types.Pointer); ok {
		t = p.Elem()
	}
	n, ok := t.(*types.Named)
	return ok && n.TypeArgs() != nil && n.TypeArgs().Len() > 0
}

package main

// Symbolic execution of one go/ssa function (NaiveForm) into SMT obligations.
//
// Encoding: forward reachability over the acyclic CFG obtained by cutting every
// back edge at its loop head (which must carry an invariant). Each block gets a
// `live` condition; every SSA value is a define-fun; state (local cells, heap
// components) is merged at joins through fresh constants constrained per edge.

import (
	"fmt"
	"go/constant"
	"go/token"
	"go/types"
	"sort"
	"strings"

	"golang.org/x/tools/go/ssa"
)

type addrKind int

const (
	aCell   addrKind = iota // non-escaping local
	aField                  // scalar/array field of a heap object
	aElem                   // slice / array element in an element heap
	aBox                    // boxed scalar behind a pointer
	aObj                    // struct object by ref (fields in component heaps)
	aGlobal                 // package-level variable
	aArr                    // whole heap-allocated array (backing store in the element heap)
)

type pathStep struct {
	field int  // struct field index, or -1
	idx   Term // array index when field == -1
	typ   types.Type
}

type Addr struct {
	Kind addrKind
	Cell *ssa.Alloc
	Path []pathStep
	Comp string
	Ref  Term
	Idx  Term
	Typ  types.Type // pointee type
}

type Closure struct {
	Fn       *ssa.Function
	Bindings []Val
}

type Val struct {
	T  Term
	A  *Addr
	Cl *Closure
	Tu []Val // tuple
}

type State struct {
	live     Term
	cells    map[*ssa.Alloc]Term
	heap     map[string]Term
	allocTop Term
	held     []heldMon // declared monitors whose mutex is held on this path (monheld.go)
}

func (s *State) clone() *State {
	n := &State{live: s.live, allocTop: s.allocTop, cells: make(map[*ssa.Alloc]Term, len(s.cells)), heap: make(map[string]Term, len(s.heap)), held: s.held}
	for k, v := range s.cells {
		n.cells[k] = v
	}
	for k, v := range s.heap {
		n.heap[k] = v
	}
	return n
}

type Obligation struct {
	Name   string
	Kind   string
	Props  []string
	Prefix int
	Live   Term
	Goal   Term
	Pos    token.Pos
	Safety bool
	Canary bool
	Func   string
	Clause string
	Line   int
	Syms   map[string]string // named terms of the state at the obligation (for replay templates: $name)
}

type loopInfo struct {
	head     *ssa.BasicBlock
	ordinal  int
	body     map[*ssa.BasicBlock]bool
	backSrcs []*ssa.BasicBlock
}

type Exec struct {
	sitePosOverride token.Pos
	L     *Loaded
	X     *Xlat
	fn    *ssa.Function
	fc    *FuncContract
	fkey  string // pkgpath.key
	short string // short display name pkgname.key
	out   strings.Builder
	nfr   int
	vals  map[ssa.Value]Val
	obls  []*Obligation

	comps     map[string]string // heap component -> sort
	compOrder []string
	newComp   bool
	entry     *State
	exitSt    map[*ssa.BasicBlock]*State
	edgeCond  map[[2]int]Term
	loops     map[*ssa.BasicBlock]*loopInfo
	backEdge  map[[2]int]bool
	ordinals  map[string]int
	assumed   map[string]bool // extern contracts / assumptions used
	abstracts map[string]bool // unmodelled things (havocked)
	paramVals map[string]Val  // entry values of parameters by name
	entryVals []Val
	retVals   []Val
	deferred  []*ssa.Defer
	errs      []string
	canaries  bool
	calls     map[string]int
	locked    map[string]bool
	inCrit       bool
	backEdgeCount map[*ssa.BasicBlock]int
	lastRand     Term
	collectFacts bool
	pureFacts    []Term
	qFacts       [][]Term
	psums     map[string]string
	psumUnfolded map[string]bool
	inlineDepth  int
	inlineStack  []*ssa.Function
	inlined      map[string]bool
	aliases      []arrAlias
	skipRecouple bool
	lastSite     string
	headStates   map[*ssa.BasicBlock]*State // state at each loop head (after havoc + invariants)
	curRecv      Val                        // receiver of the interface method call whose site assertions are being evaluated
}

func (x *Exec) fresh(prefix string) string {
	x.nfr++
	return fmt.Sprintf("%s!%d", prefix, x.nfr)
}

func (x *Exec) emit(format string, args ...any) {
	fmt.Fprintf(&x.out, format, args...)
	x.out.WriteByte('\n')
}

func (x *Exec) declConst(name, sort string) { x.emit("(declare-const %s %s)", name, sort) }

func (x *Exec) define(name, sort string, t Term) Term {
	x.emit("(define-fun %s () %s %s)", name, sort, t)
	return name
}

func (x *Exec) assertGlobal(t Term) {
	if t != "true" {
		x.emit("(assert %s)", t)
	}
}

func (x *Exec) errorf(format string, args ...any) {
	x.errs = append(x.errs, fmt.Sprintf(format, args...))
}

func (x *Exec) abstract(what string) { x.abstracts[what] = true }

// ---------------------------------------------------------------------------
// heap components

func (x *Exec) comp(name, sort string) string {
	if _, ok := x.comps[name]; !ok {
		x.comps[name] = sort
		x.compOrder = append(x.compOrder, name)
		x.newComp = true
	}
	return name
}

func (x *Exec) heapGet(st *State, name, sort string) Term {
	x.comp(name, sort)
	if t, ok := st.heap[name]; ok {
		return t
	}
	// unknown in this pass: fall back to the entry constant (second pass fixes it)
	return name + "@0"
}

func (x *Exec) fieldComp(structT types.Type, i int) (string, string, types.Type) {
	st := structT.Underlying().(*types.Struct)
	ft := st.Field(i).Type()
	name := "H_" + sanitize(typeShort(structT)) + "_" + st.Field(i).Name()
	return name, "(Array Int " + x.X.sortOf(ft) + ")", ft
}

func (x *Exec) elemComp(elemT types.Type) (string, string) {
	s := x.X.sortOf(elemT)
	if p, ok := elemT.(*types.Pointer); ok && !x.X.bvMode {
		// slices of pointers to distinct named types never share a backing array (no
		// conversion between them exists in Go without unsafe): one element heap per pointee
		if n, ok := p.Elem().(*types.Named); ok && n.TypeArgs().Len() == 0 && n.Obj().Pkg() != nil {
			return "E_ptr_" + sanitize(n.Obj().Pkg().Name()+"_"+n.Obj().Name()), "(Array Int (Array Int " + s + "))"
		}
	}
	return "E_" + sanitize(s), "(Array Int (Array Int " + s + "))"
}

func (x *Exec) boxComp(t types.Type) (string, string) {
	s := x.X.sortOf(t)
	return "Box_" + sanitize(s), "(Array Int " + s + ")"
}

func isStruct(t types.Type) bool {
	_, ok := t.Underlying().(*types.Struct)
	return ok
}

func (x *Exec) subRef(structT types.Type, i int, ref Term) Term {
	fn := "sub_" + sanitize(typeShort(structT)) + fmt.Sprintf("_%d", i)
	x.X.declare(fn, fmt.Sprintf("(declare-fun %s (Int) Int)\n(declare-fun %s_inv (Int) Int)\n(assert (forall ((p Int)) (! (and (= (%s_inv (%s p)) p) (< (%s p) 0)) :pattern ((%s p)))))", fn, fn, fn, fn, fn, fn))
	return sx(fn, ref)
}

// ---------------------------------------------------------------------------
// type invariants (assumed for inputs, loads, havocs)

func (x *Exec) typeInv(t types.Type, v Term, st *State) Term {
	return x.typeInvTop(t, v, st.allocTop)
}

func (x *Exec) typeInvTop(t types.Type, v Term, top Term) Term {
	if ii, ok := x.X.intInfoOf(t); ok {
		if x.X.bvMode {
			return "true"
		}
		return ii.inRange(v)
	}
	switch u := t.Underlying().(type) {
	case *types.Basic:
		if u.Info()&types.IsString != 0 {
			return sx("strok", v)
		}
	case *types.Slice:
		return and(sx("sliceok", v), sx("<=", sx("sbase", v), top))
	case *types.Pointer, *types.Map, *types.Chan:
		return sx("<=", v, top)
	case *types.Struct:
		var cs []Term
		for i := 0; i < u.NumFields(); i++ {
			cs = append(cs, x.typeInvTop(u.Field(i).Type(), x.X.structField(t, i, v), top))
		}
		return and(cs...)
	}
	return "true"
}

func (x *Exec) assume(st *State, t Term) {
	if t == "true" {
		return
	}
	st.live = x.define(x.fresh("live"), "Bool", and(st.live, t))
}

func (x *Exec) ordinal(kind string) int {
	x.ordinals[kind]++
	return x.ordinals[kind]
}

func (x *Exec) oblige(st *State, kind string, name string, goal Term, pos token.Pos, safety bool, props []string) *Obligation {
	o := &Obligation{Name: x.short + ":" + name, Kind: kind, Props: props, Prefix: x.out.Len(), Live: st.live, Goal: goal, Pos: pos, Safety: safety, Func: x.short}
	if t, ok := st.heap["Ghost_lastrand"]; ok {
		o.Syms = map[string]string{"lastrand": t}
	}
	x.obls = append(x.obls, o)
	// after checking, the fact may be assumed on this path
	x.assume(st, goal)
	return o
}

func (x *Exec) safety(st *State, kind string, goal Term, pos token.Pos) {
	if goal == "true" {
		return
	}
	var props []string
	if x.fc != nil && x.fc.NoPanic {
		props = x.fc.Props
	}
	x.oblige(st, kind, fmt.Sprintf("%s:%d", kind, x.ordinal(kind)), goal, pos, true, props)
}

// ---------------------------------------------------------------------------
// addresses, loads and stores

func (x *Exec) addrOf(v Val, pointee types.Type) *Addr {
	if v.A != nil {
		return v.A
	}
	if isStruct(pointee) {
		return &Addr{Kind: aObj, Ref: v.T, Typ: pointee}
	}
	if arr, ok := pointee.Underlying().(*types.Array); ok && !isStruct(arr.Elem()) {
		// a heap-allocated array is its own backing store in the element heap
		c, srt := x.elemComp(arr.Elem())
		x.comp(c, srt)
		return &Addr{Kind: aArr, Comp: c, Ref: v.T, Typ: pointee}
	}
	c, _ := x.boxComp(pointee)
	return &Addr{Kind: aBox, Comp: c, Ref: v.T, Typ: pointee}
}

func (x *Exec) applyPath(base Term, baseT types.Type, path []pathStep) Term {
	t := base
	ty := baseT
	for _, p := range path {
		if p.field >= 0 {
			t = x.X.structField(ty, p.field, t)
			ty = ty.Underlying().(*types.Struct).Field(p.field).Type()
		} else {
			t = sx("select", t, p.idx)
			ty = ty.Underlying().(*types.Array).Elem()
		}
	}
	return t
}

func (x *Exec) updatePath(base Term, baseT types.Type, path []pathStep, nv Term) Term {
	if len(path) == 0 {
		return nv
	}
	p := path[0]
	if p.field >= 0 {
		inner := x.X.structField(baseT, p.field, base)
		ft := baseT.Underlying().(*types.Struct).Field(p.field).Type()
		return x.X.structUpdate(baseT, p.field, base, x.updatePath(inner, ft, path[1:], nv))
	}
	et := baseT.Underlying().(*types.Array).Elem()
	inner := sx("select", base, p.idx)
	return sx("store", base, p.idx, x.updatePath(inner, et, path[1:], nv))
}

type memView interface {
	cellGet(a *ssa.Alloc) (Term, bool)
	heapOf(name, sort string) Term
	top() Term
}

type stateView struct {
	x  *Exec
	st *State
}

func (v stateView) cellGet(a *ssa.Alloc) (Term, bool) { t, ok := v.st.cells[a]; return t, ok }
func (v stateView) heapOf(name, sort string) Term     { return v.x.heapGet(v.st, name, sort) }
func (v stateView) top() Term                         { return v.st.allocTop }

func (x *Exec) loadAddr(m memView, a *Addr) Term {
	switch a.Kind {
	case aCell:
		base, ok := m.cellGet(a.Cell)
		if !ok {
			base = x.X.zero(deref(a.Cell.Type()))
		}
		return x.applyPath(base, deref(a.Cell.Type()), a.Path)
	case aField:
		t := sx("select", m.heapOf(a.Comp, x.comps[a.Comp]), a.Ref)
		if a.Idx != "" {
			t = sx("select", t, a.Idx)
		}
		return t
	case aElem:
		return sx("select", sx("select", m.heapOf(a.Comp, x.comps[a.Comp]), a.Ref), a.Idx)
	case aBox:
		_, srt := x.boxComp(a.Typ)
		return sx("select", m.heapOf(a.Comp, srt), a.Ref)
	case aArr:
		return sx("select", m.heapOf(a.Comp, x.comps[a.Comp]), a.Ref)
	case aGlobal:
		return m.heapOf(a.Comp, x.X.sortOf(a.Typ))
	case aObj:
		return x.loadStruct(m, a.Typ, a.Ref)
	}
	panic("loadAddr")
}

func (x *Exec) loadStruct(m memView, t types.Type, ref Term) Term {
	st := t.Underlying().(*types.Struct)
	name := x.X.sortOf(t)
	parts := []string{"mk_" + name}
	for i := 0; i < st.NumFields(); i++ {
		ft := st.Field(i).Type()
		if isStruct(ft) {
			parts = append(parts, x.loadStruct(m, ft, x.subRef(t, i, ref)))
		} else {
			c, srt, _ := x.fieldComp(t, i)
			x.comp(c, srt)
			parts = append(parts, sx("select", m.heapOf(c, srt), ref))
		}
	}
	if st.NumFields() == 0 {
		parts = append(parts, "0")
	}
	return sx(parts...)
}

func (x *Exec) storeStruct(st *State, t types.Type, ref Term, v Term) {
	s := t.Underlying().(*types.Struct)
	for i := 0; i < s.NumFields(); i++ {
		ft := s.Field(i).Type()
		fv := x.X.structField(t, i, v)
		if isStruct(ft) {
			x.storeStruct(st, ft, x.subRef(t, i, ref), fv)
		} else {
			c, srt, _ := x.fieldComp(t, i)
			h := x.heapGet(st, c, srt)
			st.heap[c] = x.define(x.fresh(c), srt, sx("store", h, ref, fv))
		}
	}
}

func (x *Exec) storeAddr(st *State, a *Addr, v Term) {
	switch a.Kind {
	case aCell:
		ct := deref(a.Cell.Type())
		base, ok := st.cells[a.Cell]
		if !ok {
			base = x.X.zero(ct)
		}
		nv := x.updatePath(base, ct, a.Path, v)
		if len(a.Path) > 0 {
			nv = x.define(x.fresh("cell"), x.X.sortOf(ct), nv)
		}
		st.cells[a.Cell] = nv
	case aField:
		srt := x.comps[a.Comp]
		h := x.heapGet(st, a.Comp, srt)
		nv := v
		if a.Idx != "" {
			nv = sx("store", sx("select", h, a.Ref), a.Idx, v)
		}
		st.heap[a.Comp] = x.define(x.fresh(a.Comp), srt, sx("store", h, a.Ref, nv))
	case aElem:
		srt := x.comps[a.Comp]
		h := x.heapGet(st, a.Comp, srt)
		st.heap[a.Comp] = x.define(x.fresh(a.Comp), srt, sx("store", h, a.Ref, sx("store", sx("select", h, a.Ref), a.Idx, v)))
	case aBox:
		c, srt := x.boxComp(a.Typ)
		h := x.heapGet(st, c, srt)
		st.heap[c] = x.define(x.fresh(c), srt, sx("store", h, a.Ref, v))
	case aArr:
		srt := x.comps[a.Comp]
		h := x.heapGet(st, a.Comp, srt)
		st.heap[a.Comp] = x.define(x.fresh(a.Comp), srt, sx("store", h, a.Ref, v))
	case aGlobal:
		srt := x.X.sortOf(a.Typ)
		x.comp(a.Comp, srt)
		st.heap[a.Comp] = v
	case aObj:
		x.storeStruct(st, a.Typ, a.Ref, v)
	}
}

func deref(t types.Type) types.Type {
	if p, ok := t.Underlying().(*types.Pointer); ok {
		return p.Elem()
	}
	return t
}

// ---------------------------------------------------------------------------
// constants

func (x *Exec) constVal(c *ssa.Const) Val {
	t := c.Type()
	if c.Value == nil {
		return Val{T: x.X.zero(t)}
	}
	if ii, ok := x.X.intInfoOf(t); ok {
		v, _ := constant.Int64Val(constant.ToInt(c.Value))
		bi, ok2 := new(bigInt).SetString(constant.ToInt(c.Value).ExactString(), 10)
		if ok2 {
			if x.X.bvMode && !ii.math {
				m := new(bigInt).Mod(bi, pow2(ii.bits))
				return Val{T: fmt.Sprintf("(_ bv%s %d)", m.String(), ii.bits)}
			}
			return Val{T: intLit(bi)}
		}
		return Val{T: intLit64(v)}
	}
	switch u := t.Underlying().(type) {
	case *types.Basic:
		switch {
		case u.Info()&types.IsBoolean != 0:
			if constant.BoolVal(c.Value) {
				return Val{T: "true"}
			}
			return Val{T: "false"}
		case u.Info()&types.IsString != 0:
			return Val{T: strConst(constant.StringVal(c.Value))}
		case u.Info()&types.IsFloat != 0:
			return Val{T: fpConst(c.Value, u.Kind() == types.Float32)}
		}
	}
	x.abstract("constant of type " + t.String())
	return Val{T: x.X.zero(t)}
}

// ---------------------------------------------------------------------------
// value lookup

func (x *Exec) val(v ssa.Value) Val {
	switch v := v.(type) {
	case *ssa.Const:
		return x.constVal(v)
	case *ssa.Global:
		name := "G_" + sanitize(v.Pkg.Pkg.Name()+"_"+v.Name())
		et := deref(v.Type())
		if !strings.HasPrefix(v.Pkg.Pkg.Path(), "google.golang.org/grpc") && types.IsInterface(et) && et.String() == "error" {
			// sentinel errors of packages outside the module (io.EOF, context.Canceled, ...): never
			// reassigned after package initialisation, so no call changes them
			name = "G_const_" + sanitize(v.Pkg.Pkg.Name()+"_"+v.Name())
			x.assumed["sentinel error variables of packages outside the module (io.EOF, ...) are never reassigned"] = true
		} else if types.IsInterface(et) && et.String() == "error" && initOnlyGlobal(v) {
			// unexported error variable of the module written only by its package initialiser
			// (checked on the SSA of the whole package, see initonly.go): no call changes it
			name = "G_const_" + sanitize(v.Pkg.Pkg.Name()+"_"+v.Name())
			x.assumed["unexported error variable "+v.Pkg.Pkg.Name()+"."+v.Name()+" is written only by the package initialiser (checked on the package's SSA each run)"] = false
		}
		return Val{A: &Addr{Kind: aGlobal, Comp: name, Typ: et}}
	case *ssa.Function:
		return Val{T: x.funcConst(v), Cl: &Closure{Fn: v}}
	case *ssa.Builtin:
		return Val{T: "0"}
	}
	if r, ok := x.vals[v]; ok {
		return r
	}
	x.errorf("use of undefined value %s (%T) in %s", v.Name(), v, x.short)
	return Val{T: x.X.zero(v.Type())}
}

func (x *Exec) funcConst(f *ssa.Function) Term {
	name := "fn_" + sanitize(f.String())
	x.X.declare(name, fmt.Sprintf("(declare-const %s Int)\n(assert (> %s 0))", name, name))
	return name
}

func (x *Exec) setVal(v ssa.Value, r Val) {
	if r.T != "" && r.A == nil && r.Tu == nil {
		srt := x.X.sortOf(v.Type())
		if !isSimpleTerm(r.T) {
			r.T = x.define(x.valName(v), srt, r.T)
		}
	}
	x.vals[v] = r
}

func isSimpleTerm(t Term) bool { return !strings.ContainsAny(t, "( ") }

// ---------------------------------------------------------------------------
// CFG preparation

func (x *Exec) findLoops() {
	x.loops = map[*ssa.BasicBlock]*loopInfo{}
	x.backEdge = map[[2]int]bool{}
	for _, b := range x.fn.Blocks {
		for _, s := range b.Succs {
			if s.Dominates(b) {
				x.backEdge[[2]int{b.Index, s.Index}] = true
				li := x.loops[s]
				if li == nil {
					li = &loopInfo{head: s, body: map[*ssa.BasicBlock]bool{s: true}}
					x.loops[s] = li
				}
				li.backSrcs = append(li.backSrcs, b)
				// natural loop body
				stack := []*ssa.BasicBlock{b}
				for len(stack) > 0 {
					n := stack[len(stack)-1]
					stack = stack[:len(stack)-1]
					if li.body[n] {
						continue
					}
					li.body[n] = true
					stack = append(stack, n.Preds...)
				}
			}
		}
	}
	var heads []*ssa.BasicBlock
	for h := range x.loops {
		heads = append(heads, h)
	}
	sort.Slice(heads, func(i, j int) bool { return headPos(heads[i]) < headPos(heads[j]) })
	for i, h := range heads {
		x.loops[h].ordinal = i + 1
	}
}

// headPos orders loop heads by source order. go/ssa creates the blocks of an
// outer loop before those of the loops nested in it, and of an earlier loop
// before a later one, so the smallest block index in {head, head's
// non-back-edge predecessor} follows the source pre-order of the loops.
func headPos(h *ssa.BasicBlock) int {
	min := h.Index
	for _, s := range h.Succs {
		// body/done blocks are created together with the loop block
		if s.Index < min && (strings.HasSuffix(s.Comment, ".body") || strings.HasSuffix(s.Comment, ".done")) {
			min = s.Index
		}
	}
	return min
}

func (x *Exec) topoOrder() []*ssa.BasicBlock {
	var order []*ssa.BasicBlock
	seen := map[*ssa.BasicBlock]bool{}
	var dfs func(b *ssa.BasicBlock)
	dfs = func(b *ssa.BasicBlock) {
		seen[b] = true
		for _, s := range b.Succs {
			if x.backEdge[[2]int{b.Index, s.Index}] || seen[s] {
				continue
			}
			dfs(s)
		}
		order = append(order, b)
	}
	dfs(x.fn.Blocks[0])
	for i, j := 0, len(order)-1; i < j; i, j = i+1, j-1 {
		order[i], order[j] = order[j], order[i]
	}
	return order
}

// modified cells/components in a loop body (syntactic over-approximation)
func (x *Exec) loopModifies(li *loopInfo) (cells map[*ssa.Alloc]bool, heapAll bool, comps map[string]bool) {
	cells = map[*ssa.Alloc]bool{}
	comps = map[string]bool{}
	for b := range li.body {
		for _, in := range b.Instrs {
			switch in := in.(type) {
			case *ssa.Alloc:
				if !in.Heap {
					cells[in] = true
				}
			case *ssa.Store:
				if a := rootAlloc(in.Addr); a != nil && !a.Heap {
					cells[a] = true
				} else {
					for _, c := range x.compsOfAddr(in.Addr) {
						comps[c] = true
					}
				}
			case *ssa.Next:
				if rng, ok := in.Iter.(*ssa.Range); ok {
					if mt, ok := rng.X.Type().Underlying().(*types.Map); ok {
						comps["Ghost_vis_"+sanitize(x.X.sortOf(mt.Key()))] = true
					}
				}
			case *ssa.MapUpdate:
				// a map store changes the three components that model maps of that type
				if mt, ok := in.Map.Type().Underlying().(*types.Map); ok {
					has, val, ln, _, _ := x.mapComps(mt)
					comps[has], comps[val], comps[ln] = true, true, true
				} else {
					heapAll = true
				}
			case ssa.CallInstruction:
				cm, all := x.callModifies(in)
				if all {
					heapAll = true
				}
				for _, c := range cm {
					comps[c] = true
				}
			case *ssa.Select, *ssa.Send:
				heapAll = true
			case *ssa.UnOp:
				if in.Op == token.ARROW {
					heapAll = true
				}
			}
		}
	}
	return
}

// callModifies: which heap components a call inside a loop may change
// (syntactic; used only to decide what to havoc at the loop head).
func (x *Exec) callModifies(in ssa.CallInstruction) ([]string, bool) {
	c := in.Common()
	if b, ok := c.Value.(*ssa.Builtin); ok {
		switch b.Name() {
		case "len", "cap", "min", "max", "print", "println", "panic":
			return nil, false
		case "append", "copy":
			if sl, ok := c.Args[0].Type().Underlying().(*types.Slice); ok && !isStruct(sl.Elem()) {
				cn, srt := x.elemComp(sl.Elem())
				x.comp(cn, srt)
				return []string{cn}, false
			}
		}
		return nil, true
	}
	if c.IsInvoke() {
		name := c.Method.FullName()
		if strings.Contains(name, "grpclog.") || name == "(error).Error" {
			return nil, false
		}
		return nil, true
	}
	callee := c.StaticCallee()
	if callee == nil {
		if ld, ok := c.Value.(*ssa.UnOp); ok && x.fc != nil {
			if fa, ok := ld.X.(*ssa.FieldAddr); ok {
				fname := deref(fa.X.Type()).Underlying().(*types.Struct).Field(fa.Field).Name()
				for _, pf := range strings.Fields(x.fc.Opts["purecalls"]) {
					if pf == fname {
						return nil, false
					}
				}
			}
			if g, ok := ld.X.(*ssa.Global); ok && randVarRe.MatchString(g.Name()) {
				return nil, false
			}
		}
		return nil, true
	}
	if fc := x.L.FuncCon[funcKey(callee)]; fc != nil {
		if fc.Pure || !fc.HasMod {
			return nil, false
		}
		return x.modComps(fc, callee)
	}
	name := callee.String()
	if _, ok := pureExterns[name]; ok {
		return nil, false
	}
	if isEffectFree(name) || x.isSpecHelper(callee) {
		return nil, false
	}
	switch name {
	case "strconv.ParseUint", "fmt.Errorf", "errors.New", "time.Now":
		return nil, false
	}
	if strings.HasPrefix(name, "math/rand/v2.") || strings.HasPrefix(name, "math/rand.") {
		return nil, false
	}
	if strings.HasPrefix(name, "(*google.golang.org/grpc/resolver.EndpointMap[") {
		switch baseName(callee) {
		case "Get", "Set", "Delete", "Len":
			return nil, false
		}
	}
	if strings.Contains(name, "status.Error") {
		return nil, false
	}
	if isPureSimple(callee, 0, map[*ssa.Function]bool{}) {
		return nil, false
	}
	return nil, true
}

func rootAlloc(v ssa.Value) *ssa.Alloc {
	for {
		switch t := v.(type) {
		case *ssa.Alloc:
			return t
		case *ssa.FieldAddr:
			if _, ok := t.X.(*ssa.Alloc); ok {
				v = t.X
				continue
			}
			if fa, ok := t.X.(*ssa.FieldAddr); ok {
				v = fa
				continue
			}
			if ia, ok := t.X.(*ssa.IndexAddr); ok {
				v = ia
				continue
			}
			return nil
		case *ssa.IndexAddr:
			if _, ok := t.X.Type().Underlying().(*types.Pointer); ok {
				v = t.X
				continue
			}
			return nil
		default:
			return nil
		}
	}
}

// heap components a store through this address may touch
func (x *Exec) compsOfAddr(v ssa.Value) []string {
	switch t := v.(type) {
	case *ssa.FieldAddr:
		st := deref(t.X.Type())
		ft := st.Underlying().(*types.Struct).Field(t.Field).Type()
		if isStruct(ft) {
			return x.allFieldComps(ft)
		}
		c, srt, _ := x.fieldComp(st, t.Field)
		x.comp(c, srt)
		return []string{c}
	case *ssa.IndexAddr:
		switch u := t.X.Type().Underlying().(type) {
		case *types.Slice:
			if isStruct(u.Elem()) {
				return x.allFieldComps(u.Elem())
			}
			c, srt := x.elemComp(u.Elem())
			x.comp(c, srt)
			return []string{c}
		case *types.Pointer:
			return x.compsOfAddr(t.X)
		}
	case *ssa.Global:
		return []string{"G_" + sanitize(t.Pkg.Pkg.Name()+"_"+t.Name())}
	}
	pt := deref(v.Type())
	if isStruct(pt) {
		return x.allFieldComps(pt)
	}
	c, srt := x.boxComp(pt)
	x.comp(c, srt)
	return []string{c}
}

func (x *Exec) allFieldComps(t types.Type) []string {
	var out []string
	st := t.Underlying().(*types.Struct)
	for i := 0; i < st.NumFields(); i++ {
		ft := st.Field(i).Type()
		if isStruct(ft) {
			out = append(out, x.allFieldComps(ft)...)
		} else {
			c, srt, _ := x.fieldComp(t, i)
			x.comp(c, srt)
			out = append(out, c)
		}
	}
	return out
}

// ---------------------------------------------------------------------------
// state merging

type inEdge struct {
	cond Term
	st   *State
	from *ssa.BasicBlock
}

func (x *Exec) mergeStates(edges []inEdge, tag string) *State {
	if len(edges) == 0 {
		return &State{live: "false", cells: map[*ssa.Alloc]Term{}, heap: map[string]Term{}, allocTop: "0"}
	}
	if len(edges) == 1 {
		s := edges[0].st.clone()
		s.live = edges[0].cond
		return s
	}
	res := &State{cells: map[*ssa.Alloc]Term{}, heap: map[string]Term{}, held: heldIntersect(edges)}
	var conds []Term
	for _, e := range edges {
		conds = append(conds, e.cond)
	}
	res.live = x.define(x.fresh("reach_"+tag), "Bool", or(conds...))
	mergeOne := func(name, srt string, get func(s *State) Term) Term {
		first := get(edges[0].st)
		same := true
		for _, e := range edges[1:] {
			if get(e.st) != first {
				same = false
				break
			}
		}
		if same {
			return first
		}
		c := x.fresh(name + "@" + tag)
		x.declConst(c, srt)
		for _, e := range edges {
			x.assertGlobal(implies(e.cond, eq(c, get(e.st))))
		}
		return c
	}
	cellSet := map[*ssa.Alloc]bool{}
	for _, e := range edges {
		for a := range e.st.cells {
			cellSet[a] = true
		}
	}
	var cellList []*ssa.Alloc
	for a := range cellSet {
		cellList = append(cellList, a)
	}
	sort.Slice(cellList, func(i, j int) bool { return cellList[i].Name() < cellList[j].Name() })
	for _, a := range cellList {
		a := a
		ct := deref(a.Type())
		res.cells[a] = mergeOne("c_"+a.Name(), x.X.sortOf(ct), func(s *State) Term {
			if t, ok := s.cells[a]; ok {
				return t
			}
			return x.X.zero(ct)
		})
	}
	for _, c := range x.compOrder {
		c := c
		res.heap[c] = mergeOne(c, x.comps[c], func(s *State) Term {
			if t, ok := s.heap[c]; ok {
				return t
			}
			return c + "@0"
		})
	}
	res.allocTop = mergeOne("alloc", "Int", func(s *State) Term { return s.allocTop })
	return res
}

func (x *Exec) mergeVals(edges []inEdge, vals []Val, t types.Type, tag string) Val {
	if len(vals) == 1 {
		return vals[0]
	}
	same := true
	for _, v := range vals[1:] {
		if v.T != vals[0].T || v.A != nil || vals[0].A != nil {
			same = false
		}
	}
	if same && vals[0].T != "" {
		return vals[0]
	}
	c := x.fresh("phi_" + tag)
	x.declConst(c, x.X.sortOf(t))
	for i, e := range edges {
		if vals[i].T == "" {
			x.abstract("phi over symbolic address")
			continue
		}
		x.assertGlobal(implies(e.cond, eq(c, vals[i].T)))
	}
	return Val{T: c}
}

// havoc helpers
func (x *Exec) havocConst(prefix, sort string) Term {
	c := x.fresh(prefix)
	x.declConst(c, sort)
	return c
}

func (x *Exec) havocHeapAll(st *State) {
	for _, c := range x.compOrder {
		if strings.HasPrefix(c, "G_const_") || strings.HasPrefix(c, "Ghost_last") || strings.HasPrefix(c, "Ghost_calls_") || strings.HasPrefix(c, "Ghost_ret_") || strings.HasPrefix(c, "Ghost_atom_") || strings.HasPrefix(c, "Ghost_vis_") {
			continue
		}
		st.heap[c] = x.havocConst(c, x.comps[c])
	}
}

func (x *Exec) havocValue(st *State, t types.Type, prefix string) Term {
	c := x.havocConst(prefix, x.X.sortOf(t))
	x.assume(st, x.typeInv(t, c, st))
	return c
}

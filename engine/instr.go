package main

// Instruction semantics shared by the main executor (mode 0, with a State,
// obligations and stores) and the pure clause evaluator (dual mode: every
// value is computed both in the current and in the old state).

import (
	"fmt"
	"go/token"
	"go/types"
	"strings"

	"golang.org/x/tools/go/ssa"
)

type frame struct {
	x      *Exec
	fn     *ssa.Function
	mem    [2]memView
	st     *State // main mode only
	vals   [2]map[ssa.Value]Val
	pcells [2]map[*ssa.Alloc]Term // private cells of pure evaluation
	mode   int
	pure   bool
	bound  map[ssa.Value]bool
	fvs    []Val // free variable bindings (closures), same for both modes
	depth  int
}

type pureView struct {
	inner memView
	f     *frame
	mode  int
}

func (v pureView) cellGet(a *ssa.Alloc) (Term, bool) {
	if t, ok := v.f.pcells[v.mode][a]; ok {
		return t, true
	}
	return v.inner.cellGet(a)
}
func (v pureView) heapOf(name, sort string) Term { return v.inner.heapOf(name, sort) }
func (v pureView) top() Term                     { return v.inner.top() }

func (f *frame) get(v ssa.Value) Val {
	switch v := v.(type) {
	case *ssa.Const, *ssa.Global, *ssa.Function, *ssa.Builtin:
		return f.x.val(v)
	case *ssa.FreeVar:
		for i, fv := range f.fn.FreeVars {
			if fv == v && i < len(f.fvs) {
				return f.fvs[i]
			}
		}
	}
	if f.pure {
		if r, ok := f.vals[f.mode][v]; ok {
			return r
		}
		f.x.errorf("pure eval: undefined value %s in %s", v.Name(), f.fn.Name())
		return Val{T: f.x.X.zero(v.Type())}
	}
	return f.x.val(v)
}

func (f *frame) set(v ssa.Value, r Val) {
	if f.pure {
		f.vals[f.mode][v] = r
		return
	}
	f.x.setVal(v, r)
}

func (f *frame) check(kind string, goal Term, pos token.Pos) {
	if f.pure || f.st == nil {
		return
	}
	f.x.safety(f.st, kind, goal, pos)
}

// markIndex records a ground index term of the code as a trigger for quantified
// clauses (alternative pattern (idxmark q)): patterns over offset+index sums do
// not match once the solver has normalised the ground sum (e.g. off+(c+1)).
func (f *frame) markIndex(idx Term) {
	if f.pure || f.st == nil || f.x.X.bvMode {
		return
	}
	if _, lit := litVal(idx); lit {
		return
	}
	f.x.X.declare("idxmark", "(declare-fun idxmark (Int) Bool)")
	f.x.assertGlobal(sx("idxmark", idx))
}

func (f *frame) assumeT(t Term) {
	if f.pure || f.st == nil {
		return
	}
	f.x.assume(f.st, t)
}

func (f *frame) m() memView { return f.mem[f.mode] }

// evalCommon handles side-effect-free instructions. Returns false if the
// instruction is not handled here.
func (f *frame) evalCommon(in ssa.Instruction) bool {
	x := f.x
	switch in := in.(type) {
	case *ssa.DebugRef:
		return true
	case *ssa.Alloc:
		et := deref(in.Type())
		if f.pure {
			f.pcells[f.mode][in] = x.X.zero(et)
			f.set(in, Val{A: &Addr{Kind: aCell, Cell: in, Typ: et}})
			return true
		}
		if !in.Heap {
			f.st.cells[in] = x.X.zero(et)
			f.set(in, Val{A: &Addr{Kind: aCell, Cell: in, Typ: et}})
			return true
		}
		// heap allocation: fresh ref, zero-initialised
		ref := x.define(x.fresh("new"), "Int", sx("+", f.st.allocTop, "1"))
		f.st.allocTop = ref
		a := x.addrOf(Val{T: ref}, et)
		x.storeAddr(f.st, a, x.X.zero(et))
		f.set(in, Val{T: ref})
		return true
	case *ssa.UnOp:
		switch in.Op {
		case token.MUL: // load
			pv := f.get(in.X)
			if pv.A == nil {
				f.check("nil", not(eq(pv.T, "0")), in.Pos())
			}
			a := x.addrOf(pv, in.Type())
			t := x.loadAddr(f.m(), a)
			if !f.pure {
				x.critCheck(f.st, a, in.Pos())
				t = x.define(x.valName(in), x.X.sortOf(in.Type()), t)
				x.vals[in] = Val{T: t}
				if a.Kind != aCell {
					f.assumeT(x.typeInv(in.Type(), t, f.st))
				}
				return true
			}
			if x.collectFacts && a.Kind != aCell {
				if fact := x.typeInvTop(in.Type(), t, f.m().top()); fact != "true" {
					if !strings.Contains(t, "q!") {
						x.pureFacts = append(x.pureFacts, fact)
					} else if n := len(x.qFacts); n > 0 && f.mode == 0 {
						// well-typedness of a value loaded under a quantifier: hypothesis of that quantifier
						x.qFacts[n-1] = append(x.qFacts[n-1], fact)
					}
				}
			}
			f.set(in, Val{T: t})
			return true
		case token.ARROW:
			return false
		default:
			a := f.get(in.X)
			f.set(in, Val{T: x.unop(in.Op, a.T, in.X.Type())})
			return true
		}
	case *ssa.BinOp:
		a, b := f.get(in.X), f.get(in.Y)
		if (in.Op == token.QUO || in.Op == token.REM) && !isFloat(in.X.Type()) {
			if x.X.bvMode {
				ii, _ := x.X.intInfoOf(in.Y.Type())
				f.check("div0", not(eq(b.T, fmt.Sprintf("(_ bv0 %d)", ii.bits))), in.Pos())
			} else {
				f.check("div0", not(eq(b.T, "0")), in.Pos())
			}
		}
		if (in.Op == token.SHL || in.Op == token.SHR) && !x.X.bvMode {
			if ii, ok := x.X.intInfoOf(in.Y.Type()); ok && ii.signed {
				f.check("shift", sx(">=", b.T, "0"), in.Pos())
			}
		}
		at, bt := a.T, b.T
		// pointer comparison with symbolic addresses
		if a.A != nil || b.A != nil {
			x.abstract("comparison of interior pointers")
			f.set(in, Val{T: x.havocPure("cmp", "Bool")})
			return true
		}
		t := x.binop(in.Op, at, bt, in.X.Type(), in.Y.Type(), in.Type())
		if in.Op == token.ADD && bt == "1" && !x.X.bvMode && !f.pure {
			// increment of the hidden index of a `for range` loop: the engine-supplied (and
			// checked) invariant index < length <= MaxInt64 excludes wrap-around, so the sum is
			// written without the wrap test (keeps index terms usable as quantifier patterns)
			if ld, ok := in.X.(*ssa.UnOp); ok && ld.Op == token.MUL {
				if a, ok := ld.X.(*ssa.Alloc); ok && a.Comment == "rangeindex" {
					t = sx("+", at, "1")
				}
			}
		}
		if t == "" {
			t = x.havocPure("binop", x.X.sortOf(in.Type()))
		}
		f.set(in, Val{T: t})
		return true
	case *ssa.Convert:
		a := f.get(in.X)
		t, ok := x.convert(a.T, in.X.Type(), in.Type())
		if !ok {
			t = f.convertSpecial(in, a)
		}
		f.set(in, Val{T: t})
		return true
	case *ssa.ChangeType:
		v := f.get(in.X)
		if x.X.bvMode {
			fi, fok := x.X.intInfoOf(in.X.Type())
			ti, tok := x.X.intInfoOf(in.Type())
			if fok && tok && fi.math != ti.math {
				f.set(in, Val{T: x.bvConvert(v.T, fi, ti)})
				return true
			}
		}
		f.set(in, v)
		return true
	case *ssa.MultiConvert:
		a := f.get(in.X)
		t, ok := x.convert(a.T, in.X.Type(), in.Type())
		if !ok {
			x.abstract("multiconvert " + in.Type().String())
			t = x.havocPure("conv", x.X.sortOf(in.Type()))
		}
		f.set(in, Val{T: t})
		return true
	case *ssa.FieldAddr:
		pv := f.get(in.X)
		st := deref(in.X.Type())
		ft := st.Underlying().(*types.Struct).Field(in.Field).Type()
		if pv.A != nil && pv.A.Kind == aCell {
			na := &Addr{Kind: aCell, Cell: pv.A.Cell, Path: append(append([]pathStep{}, pv.A.Path...), pathStep{field: in.Field}), Typ: ft}
			f.set(in, Val{A: na})
			return true
		}
		if pv.A != nil && pv.A.Kind != aObj {
			x.abstract("field address through unsupported pointer form")
			f.set(in, Val{T: x.havocPure("addr", "Int")})
			return true
		}
		ref := pv.T
		if pv.A != nil {
			ref = pv.A.Ref
		} else {
			f.check("nil", not(eq(ref, "0")), in.Pos())
		}
		if isStruct(ft) {
			f.set(in, Val{T: x.subRef(st, in.Field, ref)})
			return true
		}
		c, srt, _ := x.fieldComp(st, in.Field)
		x.comp(c, srt)
		f.set(in, Val{A: &Addr{Kind: aField, Comp: c, Ref: ref, Typ: ft}})
		return true
	case *ssa.Field:
		v := f.get(in.X)
		f.set(in, Val{T: x.X.structField(in.X.Type(), in.Field, v.T)})
		return true
	case *ssa.IndexAddr:
		xv := f.get(in.X)
		iv := f.get(in.Index)
		idx := f.toInt(iv.T, in.Index.Type())
		switch u := in.X.Type().Underlying().(type) {
		case *types.Slice:
			f.check("index", and(sx("<=", "0", idx), sx("<", idx, sx("sllen", xv.T))), in.Pos())
			f.markIndex(idx)
			pos := sx("+", sx("soff", xv.T), idx)
			if isStruct(u.Elem()) {
				f.set(in, Val{T: sx("elemref", sx("sbase", xv.T), pos)})
				return true
			}
			c, srt := x.elemComp(u.Elem())
			x.comp(c, srt)
			f.set(in, Val{A: &Addr{Kind: aElem, Comp: c, Ref: sx("sbase", xv.T), Idx: pos, Typ: u.Elem()}})
			return true
		case *types.Pointer: // pointer to array
			arr := u.Elem().Underlying().(*types.Array)
			f.check("index", and(sx("<=", "0", idx), sx("<", idx, fmt.Sprint(arr.Len()))), in.Pos())
			if xv.A != nil && xv.A.Kind == aCell {
				na := &Addr{Kind: aCell, Cell: xv.A.Cell, Path: append(append([]pathStep{}, xv.A.Path...), pathStep{field: -1, idx: idx}), Typ: arr.Elem()}
				f.set(in, Val{A: na})
				return true
			}
			if xv.A != nil && xv.A.Kind == aField && xv.A.Idx == "" {
				na := *xv.A
				na.Idx = idx
				na.Typ = arr.Elem()
				f.set(in, Val{A: &na})
				return true
			}
			if xv.A == nil && !isStruct(arr.Elem()) {
				// heap-allocated array behind a plain ref: its elements live in the element heap
				c, srt := x.elemComp(arr.Elem())
				x.comp(c, srt)
				f.check("nil", not(eq(xv.T, "0")), in.Pos())
				f.set(in, Val{A: &Addr{Kind: aElem, Comp: c, Ref: xv.T, Idx: idx, Typ: arr.Elem()}})
				return true
			}
			x.abstract("index address through unsupported pointer form")
			f.set(in, Val{T: x.havocPure("addr", "Int")})
			return true
		}
		return false
	case *ssa.Index:
		xv := f.get(in.X)
		iv := f.get(in.Index)
		idx := f.toInt(iv.T, in.Index.Type())
		switch u := in.X.Type().Underlying().(type) {
		case *types.Array:
			f.check("index", and(sx("<=", "0", idx), sx("<", idx, fmt.Sprint(u.Len()))), in.Pos())
			f.set(in, Val{T: sx("select", xv.T, idx)})
			return true
		case *types.Basic: // string (generic code)
			f.check("index", and(sx("<=", "0", idx), sx("<", idx, sx("slen", xv.T))), in.Pos())
			f.set(in, Val{T: f.fromInt(sx("select", sx("sdata", xv.T), idx), in.Type())})
			return true
		}
		return false
	case *ssa.Lookup:
		xv := f.get(in.X)
		if isString(in.X.Type()) {
			iv := f.get(in.Index)
			idx := f.toInt(iv.T, in.Index.Type())
			f.check("index", and(sx("<=", "0", idx), sx("<", idx, sx("slen", xv.T))), in.Pos())
			f.markIndex(idx)
			t := sx("select", sx("sdata", xv.T), idx)
			if !f.pure && !x.X.bvMode {
				t = x.define(x.valName(in), "Int", t)
				f.assumeT(and(sx("<=", "0", t), sx("<=", t, "255")))
			}
			f.set(in, Val{T: f.fromInt(t, in.Type())})
			return true
		}
		return f.mapLookup(in, xv)
	case *ssa.Slice:
		return f.evalSlice(in)
	case *ssa.MakeInterface:
		v := f.get(in.X)
		f.set(in, Val{T: x.box(in.X.Type(), v)})
		return true
	case *ssa.ChangeInterface:
		f.set(in, f.get(in.X))
		return true
	case *ssa.TypeAssert:
		v := f.get(in.X)
		var ok Term
		var val Term
		if types.IsInterface(in.AssertedType) {
			ok = and(not(eq(v.T, "0")), x.implementsPred(in.AssertedType, v.T))
			val = v.T
		} else {
			ok = eq(sx("itype", v.T), fmt.Sprint(x.X.typeID(in.AssertedType)))
			val = x.unbox(in.AssertedType, v.T)
		}
		if in.CommaOk {
			zero := x.X.zero(in.AssertedType)
			f.set(in, Val{Tu: []Val{{T: ite(ok, val, zero)}, {T: ok}}})
		} else {
			f.check("typeassert", ok, in.Pos())
			f.set(in, Val{T: val})
		}
		return true
	case *ssa.Extract:
		tv := f.get(in.Tuple)
		if in.Index < len(tv.Tu) {
			f.set(in, tv.Tu[in.Index])
		} else {
			x.errorf("extract from non-tuple in %s", x.short)
			f.set(in, Val{T: x.X.zero(in.Type())})
		}
		return true
	case *ssa.MakeClosure:
		cl := &Closure{Fn: in.Fn.(*ssa.Function)}
		for _, b := range in.Bindings {
			cl.Bindings = append(cl.Bindings, f.get(b))
		}
		f.set(in, Val{T: x.funcConst(cl.Fn), Cl: cl})
		return true
	}
	return false
}

// integers used as indices / lengths are Int in int mode; in bv mode convert
func (f *frame) toInt(t Term, typ types.Type) Term {
	if !f.x.X.bvMode {
		return t
	}
	ii, ok := f.x.X.intInfoOf(typ)
	if !ok || ii.math {
		return t
	}
	if ii.signed {
		return sx("sbv_to_int", t)
	}
	return sx("ubv_to_int", t)
}

func (f *frame) fromInt(t Term, typ types.Type) Term {
	if !f.x.X.bvMode {
		return t
	}
	ii, ok := f.x.X.intInfoOf(typ)
	if !ok || ii.math {
		return t
	}
	return sx(fmt.Sprintf("(_ int_to_bv %d)", ii.bits), t)
}

func (x *Exec) havocPure(prefix, sort string) Term {
	c := x.fresh(prefix)
	x.X.declare(c, fmt.Sprintf("(declare-const %s %s)", c, sort))
	return c
}

func (f *frame) convertSpecial(in *ssa.Convert, a Val) Term {
	x := f.x
	from, to := in.X.Type(), in.Type()
	// []byte -> string
	if sl, ok := from.Underlying().(*types.Slice); ok && isString(to) {
		if b, ok := sl.Elem().Underlying().(*types.Basic); ok && b.Kind() == types.Uint8 {
			c, srt := x.elemComp(sl.Elem())
			x.comp(c, srt)
			h := f.m().heapOf(c, srt)
			return sx("strofbytes", sx("select", h, sx("sbase", a.T)), sx("soff", a.T), sx("sllen", a.T))
		}
	}
	// string -> []byte
	if sl, ok := to.Underlying().(*types.Slice); ok && isString(from) && !f.pure {
		if b, ok := sl.Elem().Underlying().(*types.Basic); ok && b.Kind() == types.Uint8 {
			c, srt := x.elemComp(sl.Elem())
			ref := x.define(x.fresh("new"), "Int", sx("+", f.st.allocTop, "1"))
			f.st.allocTop = ref
			h := x.heapGet(f.st, c, srt)
			f.st.heap[c] = x.define(x.fresh(c), srt, sx("store", h, ref, sx("sdata", a.T)))
			return sx("mkslice", ref, "0", sx("slen", a.T), sx("slen", a.T))
		}
	}
	// integer -> string (rune)
	x.abstract(fmt.Sprintf("conversion %s -> %s", from, to))
	return x.havocPure("conv", x.X.sortOf(to))
}

func (f *frame) evalSlice(in *ssa.Slice) bool {
	x := f.x
	xv := f.get(in.X)
	lo, hi, max := "", "", ""
	if in.Low != nil {
		lo = f.toInt(f.get(in.Low).T, in.Low.Type())
	}
	if in.High != nil {
		hi = f.toInt(f.get(in.High).T, in.High.Type())
	}
	if in.Max != nil {
		max = f.toInt(f.get(in.Max).T, in.Max.Type())
	}
	switch u := in.X.Type().Underlying().(type) {
	case *types.Basic: // string
		if lo == "" {
			lo = "0"
		}
		if hi == "" {
			hi = sx("slen", xv.T)
		}
		f.check("slice", and(sx("<=", "0", lo), sx("<=", lo, hi), sx("<=", hi, sx("slen", xv.T))), in.Pos())
		if lo == "0" && hi == sx("slen", xv.T) {
			f.set(in, xv)
			return true
		}
		f.set(in, Val{T: sx("substr", xv.T, lo, hi)})
		return true
	case *types.Slice:
		if lo == "" {
			lo = "0"
		}
		if hi == "" {
			hi = sx("sllen", xv.T)
		}
		capT := sx("scap", xv.T)
		if max == "" {
			f.check("slice", and(sx("<=", "0", lo), sx("<=", lo, hi), sx("<=", hi, capT)), in.Pos())
			f.set(in, Val{T: sx("mkslice", sx("sbase", xv.T), sx("+", sx("soff", xv.T), lo), sx("-", hi, lo), sx("-", capT, lo))})
		} else {
			f.check("slice", and(sx("<=", "0", lo), sx("<=", lo, hi), sx("<=", hi, max), sx("<=", max, capT)), in.Pos())
			f.set(in, Val{T: sx("mkslice", sx("sbase", xv.T), sx("+", sx("soff", xv.T), lo), sx("-", hi, lo), sx("-", max, lo))})
		}
		return true
	case *types.Pointer: // pointer to array
		arr := u.Elem().Underlying().(*types.Array)
		n := fmt.Sprint(arr.Len())
		if lo == "" {
			lo = "0"
		}
		if hi == "" {
			hi = n
		}
		f.check("slice", and(sx("<=", "0", lo), sx("<=", lo, hi), sx("<=", hi, n)), in.Pos())
		if f.pure {
			return false
		}
		// materialise the array as an element-heap object
		c, srt := x.elemComp(arr.Elem())
		if xv.A != nil && xv.A.Kind == aCell && len(xv.A.Path) == 0 {
			// local array: copy its current value into a fresh backing store; later writes through
			// the slice are not reflected in the cell (only used for freshly built argument lists)
			ref := x.define(x.fresh("new"), "Int", sx("+", f.st.allocTop, "1"))
			f.st.allocTop = ref
			h := x.heapGet(f.st, c, srt)
			cur, _ := f.st.cells[xv.A.Cell]
			f.st.heap[c] = x.define(x.fresh(c), srt, sx("store", h, ref, cur))
			f.set(in, Val{T: sx("mkslice", ref, lo, sx("-", hi, lo), sx("-", n, lo))})
			x.abstract("slice of local array copied (aliasing with the array variable not modelled)")
			return true
		}
		if xv.A == nil {
			// heap array by ref (from new([N]T)): boxed array is stored in the element heap under the same ref
			h := x.heapGet(f.st, c, srt)
			_ = h
			f.set(in, Val{T: sx("mkslice", xv.T, lo, sx("-", hi, lo), sx("-", n, lo))})
			return true
		}
		if xv.A.Kind == aField && xv.A.Idx == "" && len(x.loops) == 0 && f.st != nil {
			base := x.sliceArrayField(f.st, xv.A, c, srt)
			f.set(in, Val{T: sx("mkslice", base, lo, sx("-", hi, lo), sx("-", n, lo))})
			return true
		}
		x.abstract("slice of array field (length/capacity exact, contents and aliasing with the field not modelled)")
		hv := x.havocValue(f.st, in.Type(), "slice")
		x.assume(f.st, and(eq(sx("sllen", hv), sx("-", hi, lo)), eq(sx("scap", hv), sx("-", n, lo)), not(eq(sx("sbase", hv), "0"))))
		f.set(in, Val{T: hv})
		return true
	}
	return false
}

// ---------------------------------------------------------------------------
// interfaces

func (x *Exec) box(t types.Type, v Val) Term {
	if types.IsInterface(t) {
		return v.T
	}
	if v.T == "" {
		x.abstract("boxing of interior pointer")
		return x.havocPure("box", "Int")
	}
	srt := x.X.sortOf(t)
	id := x.X.typeID(t)
	fn := fmt.Sprintf("box_%d", id)
	x.X.declare(fn, fmt.Sprintf("(declare-fun %s (%s) Int)\n(declare-fun un%s (Int) %s)\n(assert (forall ((v %s)) (! (and (= (un%s (%s v)) v) (= (itype (%s v)) %d) (> (%s v) 0)) :pattern ((%s v)))))",
		fn, srt, fn, srt, srt, fn, fn, fn, id, fn, fn))
	return sx(fn, v.T)
}

func (x *Exec) unbox(t types.Type, v Term) Term {
	srt := x.X.sortOf(t)
	id := x.X.typeID(t)
	fn := fmt.Sprintf("box_%d", id)
	x.X.declare(fn, fmt.Sprintf("(declare-fun %s (%s) Int)\n(declare-fun un%s (Int) %s)\n(assert (forall ((v %s)) (! (and (= (un%s (%s v)) v) (= (itype (%s v)) %d) (> (%s v) 0)) :pattern ((%s v)))))",
		fn, srt, fn, srt, srt, fn, fn, fn, id, fn, fn))
	return sx("un"+fn, v)
}

func (x *Exec) implementsPred(iface types.Type, v Term) Term {
	// named by method set: a local interface type and an identical anonymous one are the same test
	fn := "impl" + ifaceMethodSetName(iface)
	x.X.declare(fn, fmt.Sprintf("(declare-fun %s (Int) Bool)", fn))
	return sx(fn, sx("itype", v))
}

// ---------------------------------------------------------------------------
// maps: heap components keyed by map ref

func (x *Exec) mapComps(mt *types.Map) (has, val, ln string, hs, vs string) {
	ks, es := x.X.sortOf(mt.Key()), x.X.sortOf(mt.Elem())
	base := "M_" + sanitize(ks) + "_" + sanitize(es)
	hs = "(Array Int (Array " + ks + " Bool))"
	vs = "(Array Int (Array " + ks + " " + es + "))"
	x.comp(base+"_has", hs)
	x.comp(base+"_val", vs)
	x.comp(base+"_len", "(Array Int Int)")
	return base + "_has", base + "_val", base + "_len", hs, vs
}

func (f *frame) mapLookup(in *ssa.Lookup, mv Val) bool {
	x := f.x
	mt, ok := in.X.Type().Underlying().(*types.Map)
	if !ok {
		return false
	}
	k := f.get(in.Index)
	has, val, _, hs, vs := x.mapComps(mt)
	hasT := sx("select", sx("select", f.m().heapOf(has, hs), mv.T), k.T)
	valT := sx("select", sx("select", f.m().heapOf(val, vs), mv.T), k.T)
	present := and(not(eq(mv.T, "0")), hasT)
	res := ite(present, valT, x.X.zero(mt.Elem()))
	if !f.pure {
		res = x.define(x.fresh("mapval"), x.X.sortOf(mt.Elem()), res)
		f.assumeT(x.typeInv(mt.Elem(), res, f.st))
	}
	if in.CommaOk {
		f.set(in, Val{Tu: []Val{{T: res}, {T: present}}})
	} else {
		f.set(in, Val{T: res})
	}
	return true
}

package main

// Range-over-func loops. go/ssa turns the body of `for k, v := range seq { ... }`
// into a synthetic yield function outer$k and the loop into the call seq(outer$k).
//
// Rule at the call, for a body under contract that declares `rangeinv` clauses
// (each one is a requires AND an ensures of the body, so the body's own
// verification shows that one iteration preserves it):
//
//   1. every rangeinv clause is asserted in the state before the call (obligations
//      rangeinv-init:<site>:<k>);
//   2. the captured variables the body assigns and the heap locations in the body's
//      `modifies` clause are havocked (nothing on the heap without one);
//   3. every rangeinv clause is assumed.
//
// Assumptions (listed in the evidence): the iterator calls the yield function zero
// or more times, has no other effect on the modelled state, and the values it yields
// satisfy the body's remaining (non-rangeinv) preconditions — those are statements
// about the container's contents.

import (
	"fmt"
	"sort"
	"strings"

	"golang.org/x/tools/go/ssa"
)

const yieldSynthetic = "range-over-func yield"

func isYieldFn(fn *ssa.Function) bool {
	return fn != nil && fn.Synthetic == yieldSynthetic
}

// yieldEntry: set-up at the entry of a yield function under verification.
//   - the named range variables (locals assigned from the yield parameters in the
//     first statement) denote the yielded values in requires/ensures clauses;
//   - the jump$k cells of the lowering are 0 (the loop is active: the iterator
//     calls yield only during the iterator call) — assumption about the iterator.
func (x *Exec) yieldEntry(st *State) {
	fn := x.fn
	if !isYieldFn(fn) {
		return
	}
	for _, b := range fn.Blocks {
		for _, in := range b.Instrs {
			s, ok := in.(*ssa.Store)
			if !ok {
				continue
			}
			a, ok := s.Addr.(*ssa.Alloc)
			p, ok2 := s.Val.(*ssa.Parameter)
			if ok && ok2 && a.Comment != "" {
				if _, dup := x.paramVals[a.Comment]; !dup {
					x.paramVals[a.Comment] = x.vals[p]
				}
			}
		}
	}
	for _, fv := range fn.FreeVars {
		if strings.HasPrefix(fv.Name(), "jump$") {
			a := x.addrOf(x.vals[fv], deref(fv.Type()))
			x.assume(st, eq(x.loadAddr(stateView{x, st}, a), x.X.zero(deref(fv.Type()))))
			x.assumed["range-over-func body: the iterator calls the yield function only while the loop is active (jump$ state 0 on entry)"] = true
		}
	}
}

// rangeFuncCall handles seq(yield) in the function that contains the loop.
func (x *Exec) rangeFuncCall(f *frame, in ssa.Instruction, c *ssa.CallCommon, args []Val) (Val, bool) {
	if len(args) != 1 || args[0].Cl == nil || !isYieldFn(args[0].Cl.Fn) {
		return Val{}, false
	}
	body := args[0].Cl.Fn
	fc := x.L.FuncCon[funcKey(body)]
	if fc == nil {
		return Val{}, false
	}
	for _, b := range body.Blocks {
		for _, bi := range b.Instrs {
			if s, ok := bi.(*ssa.Store); ok {
				if fv, ok := s.Addr.(*ssa.FreeVar); ok && strings.HasPrefix(fv.Name(), "jump$") {
					if k, ok := s.Val.(*ssa.Const); !ok || (k.Int64() != 0 && k.Int64() != -1) {
						return Val{}, false // break / return / goto out of the loop body: not modelled
					}
				}
			}
		}
	}
	var invs []*Clause
	for _, r := range fc.Requires {
		if r.RangeInv {
			invs = append(invs, r)
		}
	}
	st := f.st
	binds := args[0].Cl.Bindings
	fvIndex := map[string]int{}
	for i, fv := range body.FreeVars {
		fvIndex[fv.Name()] = i
	}
	site := fmt.Sprintf("%s#%d", body.Name(), x.ordinal("rangefunc:"+body.Name()))
	evalInv := func(cl *Clause, s *State) (Term, bool) {
		cf := x.clauseFn(cl, pkgPathOf(body))
		if cf == nil {
			return "", false
		}
		over := map[string]dual{}
		for _, p := range cf.Params {
			i, ok := fvIndex[p.Name()]
			if !ok || i >= len(binds) {
				x.errorf("rangeinv clause %q of %s mentions %s, which is not a variable of the enclosing function", cl.Text, body.Name(), p.Name())
				return "", false
			}
			a := x.addrOf(binds[i], deref(body.FreeVars[i].Type()))
			v := x.loadAddr(stateView{x, s}, a)
			over[p.Name()] = dualOf(Val{T: v})
		}
		return x.evalClauseDual(cl, body, s, s, nil, true, over)[0].T, true
	}
	for k, cl := range invs {
		t, ok := evalInv(cl, st)
		if !ok {
			continue
		}
		o := x.oblige(st, "rangeinv-init", fmt.Sprintf("rangeinv-init:%s:%d", site, k+1), t, in.Pos(), false, x.props())
		o.Clause, o.Line = cl.Text, cl.Line
	}
	// effects of the iterations
	pre := st.clone()
	if fc.HasMod {
		over := map[string]dual{}
		for name, i := range fvIndex {
			if i < len(binds) {
				a := x.addrOf(binds[i], deref(body.FreeVars[i].Type()))
				over[name] = dualOf(Val{T: x.loadAddr(stateView{x, pre}, a)})
			}
		}
		ents := x.modEntries(fc, body, over, pre)
		if x.fc != nil && x.fc.HasMod {
			x.frameCheckCall(st, ents, in.Pos())
		}
		x.havocMod(st, ents)
	} else {
		// no modifies clause on the body: what its instructions write syntactically
		// (stores through pointers, append/copy on element heaps); a call of a callee
		// with a modifies clause or without contract makes everything unknown
		comps, all := map[string]bool{}, false
		for _, b := range body.Blocks {
			for _, bi := range b.Instrs {
				switch bi := bi.(type) {
				case *ssa.Store:
					if _, isFV := bi.Addr.(*ssa.FreeVar); isFV {
						continue
					}
					if a := rootAlloc(bi.Addr); a != nil && !a.Heap {
						continue
					}
					for _, cn := range x.compsOfAddr(bi.Addr) {
						comps[cn] = true
					}
				case *ssa.MapUpdate, *ssa.Select, *ssa.Send:
					all = true
				case ssa.CallInstruction:
					cm, a := x.callModifies(bi)
					all = all || a
					for _, cn := range cm {
						comps[cn] = true
					}
				}
			}
		}
		if all {
			x.unknownEffect(st, in.Pos())
		} else {
			var cs []string
			for cn := range comps {
				cs = append(cs, cn)
			}
			sort.Strings(cs)
			for _, cn := range cs {
				st.heap[cn] = x.havocConst(cn+"@rf", x.comps[cn])
			}
		}
	}
	x.havocTop(st)
	assigned := map[int]bool{}
	for _, b := range body.Blocks {
		for _, bi := range b.Instrs {
			if s, ok := bi.(*ssa.Store); ok {
				if fv, ok := s.Addr.(*ssa.FreeVar); ok {
					assigned[fvIndex[fv.Name()]] = true
				}
			}
		}
	}
	for i, fv := range body.FreeVars {
		if i >= len(binds) {
			continue
		}
		a := x.addrOf(binds[i], deref(fv.Type()))
		if strings.HasPrefix(fv.Name(), "jump$") {
			// loop left normally: the lowering's state variable is back to 0
			x.storeAddr(st, a, x.X.zero(deref(fv.Type())))
			continue
		}
		if assigned[i] {
			x.storeAddr(st, a, x.havocValue(st, deref(fv.Type()), "rf_"+sanitize(fv.Name())))
		}
	}
	for _, cl := range invs {
		if t, ok := evalInv(cl, st); ok {
			x.assume(st, t)
		}
	}
	x.assumed[fmt.Sprintf("range-over-func loop %s: the iterator only calls the loop body (zero or more times) and has no other effect on the modelled state; yielded values satisfy the body's element preconditions; the loop is left by exhausting the iterator (break/return inside the body are not modelled by this rule)", body.Name())] = true
	x.assumed["contract of "+funcKey(body)+" (checked separately)"] = false
	return Val{}, true
}

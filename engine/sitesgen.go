package main

import (
	"fmt"
	"go/ast"
	"go/parser"
	"go/token"
	"go/types"
	"sort"

	"golang.org/x/tools/go/packages"
)

// callArgParams: clause parameters arg0, arg1, ... for an `assert at call`
// clause, typed as the callee sees them (a variadic tail is a slice).
func callArgParams(p *packages.Package, body ast.Node, lparen token.Pos, text string) []clauseParam {
	var call *ast.CallExpr
	ast.Inspect(body, func(n ast.Node) bool {
		if ce, ok := n.(*ast.CallExpr); ok && ce.Lparen == lparen {
			call = ce
			return false
		}
		return call == nil
	})
	e, err := parser.ParseExpr(text)
	if err != nil {
		return nil
	}
	if call == nil {
		// pseudo call site of a channel send: arg0 the channel, arg1 the value sent
		var send *ast.SendStmt
		ast.Inspect(body, func(n ast.Node) bool {
			if ss, ok := n.(*ast.SendStmt); ok && ss.Arrow == lparen {
				send = ss
			}
			return send == nil
		})
		if send == nil {
			return nil
		}
		var out []clauseParam
		ct := p.TypesInfo.TypeOf(send.Chan)
		for _, name := range freeIdents(e) {
			switch name {
			case "arg0":
				out = append(out, clauseParam{Name: name, Type: ct, Kind: "arg"})
			case "arg1":
				if ch, ok := ct.Underlying().(*types.Chan); ok {
					out = append(out, clauseParam{Name: name, Type: ch.Elem(), Kind: "arg"})
				}
			}
		}
		sort.Slice(out, func(i, j int) bool { return out[i].Name < out[j].Name })
		return out
	}
	var argTypes []types.Type
	ft := p.TypesInfo.TypeOf(call.Fun)
	if sig, ok := ft.(*types.Signature); ok {
		off := 0
		// method value calls: receiver is arg0 in SSA for static method calls
		if sel, ok := call.Fun.(*ast.SelectorExpr); ok {
			if s := p.TypesInfo.Selections[sel]; s != nil && s.Kind() == types.MethodVal {
				if !types.IsInterface(s.Recv()) {
					argTypes = append(argTypes, s.Obj().(*types.Func).Type().(*types.Signature).Recv().Type())
					off = 1
				}
			}
		}
		_ = off
		for i := 0; i < sig.Params().Len(); i++ {
			argTypes = append(argTypes, sig.Params().At(i).Type())
		}
	} else if id, ok := call.Fun.(*ast.Ident); ok && id.Name == "append" && len(call.Args) >= 1 {
		t := p.TypesInfo.TypeOf(call.Args[0])
		argTypes = []types.Type{t, t}
	} else {
		for _, a := range call.Args {
			argTypes = append(argTypes, p.TypesInfo.TypeOf(a))
		}
	}
	var out []clauseParam
	for _, name := range freeIdents(e) {
		if name == "recv" {
			// the receiver expression of a method call (interface method calls have no arg0)
			if sel, ok := call.Fun.(*ast.SelectorExpr); ok {
				if t := p.TypesInfo.TypeOf(sel.X); t != nil {
					out = append(out, clauseParam{Name: "recv", Type: t, Kind: "arg"})
				}
			}
			continue
		}
		var k int
		if n, err := fmt.Sscanf(name, "arg%d", &k); err == nil && n == 1 && fmt.Sprintf("arg%d", k) == name && k < len(argTypes) && argTypes[k] != nil {
			out = append(out, clauseParam{Name: name, Type: argTypes[k], Kind: "arg"})
		}
	}
	sort.Slice(out, func(i, j int) bool { return out[i].Name < out[j].Name })
	return out
}

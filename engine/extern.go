package main

// Assumed contracts for functions outside the verified packages (stdlib and
// friends). Every use is recorded in Exec.assumed and reported in evidence.

import (
	"fmt"
	"go/token"
	"go/types"
	"strings"

	"golang.org/x/tools/go/ssa"
)

// decimal-string axioms, emitted when used
const decAxioms = `
(assert (forall ((v Int)) (! (=> (>= v 0) (and (strok (decstr v)) (str_isdigits (decstr v)) (= (str_parsedec (decstr v)) v) (>= (slen (decstr v)) 1)
   (=> (<= v 9) (= (slen (decstr v)) 1))
   (=> (<= v 99999999) (<= (slen (decstr v)) 8))
   (=> (> v 99999999) (> (slen (decstr v)) 8)))) :pattern ((decstr v)))))
(assert (forall ((s Str)) (! (= (str_isdigits s) (forall ((i Int)) (! (=> (and (<= 0 i) (< i (slen s))) (and (<= 48 (select (sdata s) i)) (<= (select (sdata s) i) 57))) :pattern ((select (sdata s) i))))) :pattern ((str_isdigits s)))))
(assert (forall ((s Str)) (! (=> (str_isdigits s) (and (>= (str_parsedec s) 0)
   (=> (<= (slen s) 8) (<= (str_parsedec s) 99999999))
   (=> (<= (slen s) 0) (= (str_parsedec s) 0)))) :pattern ((str_parsedec s)))))
`

func (x *Exec) useDec() {
	x.X.declare("decaxioms", decAxioms)
	x.assumed["decimal strings: strconv.FormatInt(v,10)=decstr(v) is 1..n ASCII digits with parse(decstr(v))=v and len<=8 iff v<=99999999; parse of <=8 digits is <=99999999 (mathematical facts about base-10 numerals, axiomatised)"] = true
}

func isPureSimple(fn *ssa.Function, depth int, seen map[*ssa.Function]bool) bool {
	if fn == nil || depth > 4 {
		return false
	}
	if fn.Pkg != nil {
		fn.Pkg.Build()
	}
	if len(fn.Blocks) == 0 || len(fn.Blocks) > 40 {
		return false
	}
	if seen[fn] {
		return false
	}
	seen[fn] = true
	defer delete(seen, fn)
	for _, b := range fn.Blocks {
		for _, s := range b.Succs {
			if s.Dominates(b) {
				return false // loop
			}
		}
		for _, in := range b.Instrs {
			switch in := in.(type) {
			case *ssa.Store:
				if a := rootAlloc(in.Addr); a == nil {
					return false
				}
			case *ssa.Call:
				if b, ok := in.Call.Value.(*ssa.Builtin); ok {
					switch b.Name() {
					case "len", "cap", "min", "max", "ssa:deferstack":
						continue
					}
					return false
				}
				c := in.Call.StaticCallee()
				if c == nil {
					return false
				}
				if _, ok := pureExterns[c.String()]; ok {
					continue
				}
				if !isPureSimple(c, depth+1, seen) {
					return false
				}
			case *ssa.Go, *ssa.Defer, *ssa.Send, *ssa.Select, *ssa.MapUpdate, *ssa.MakeChan, *ssa.MakeMap, *ssa.MakeSlice, *ssa.Panic, *ssa.Range, *ssa.Next, *ssa.MakeClosure:
				return false
			case *ssa.Alloc:
				if in.Heap {
					return false
				}
			case *ssa.UnOp:
				if in.Op == token.ARROW {
					return false
				}
			case *ssa.Convert:
				// string<->[]byte conversions allocate
				if _, ok := in.Type().Underlying().(*types.Slice); ok {
					return false
				}
			case *ssa.Slice:
				if _, ok := in.X.Type().Underlying().(*types.Pointer); ok {
					return false
				}
			}
		}
	}
	return true
}

type pureExtern func(x *Exec, f *frame, m int, args []Val, in ssa.Value) (Val, bool)

var pureExterns = map[string]pureExtern{}

func init() {
	for k, v := range map[string]pureExtern{
		"strconv.FormatInt": func(x *Exec, f *frame, m int, a []Val, in ssa.Value) (Val, bool) {
			if b, ok := litVal(a[1].T); !ok || b.Int64() != 10 {
				return Val{}, false
			}
			x.useDec()
			// negative values are outside the axiomatised domain: result unconstrained there
			return Val{T: sx("decstr", a[0].T)}, true
		},
		"strconv.Itoa": func(x *Exec, f *frame, m int, a []Val, in ssa.Value) (Val, bool) {
			x.useDec()
			return Val{T: sx("decstr", a[0].T)}, true
		},
		"strings.ToLower": func(x *Exec, f *frame, m int, a []Val, in ssa.Value) (Val, bool) {
			x.useLower()
			return Val{T: sx("strlower", a[0].T)}, true
		},
		"strings.HasPrefix": func(x *Exec, f *frame, m int, a []Val, in ssa.Value) (Val, bool) {
			s, p := a[0].T, a[1].T
			return Val{T: and(sx(">=", sx("slen", s), sx("slen", p)), eq(sx("substr", s, "0", sx("slen", p)), p))}, true
		},
		"strings.HasSuffix": func(x *Exec, f *frame, m int, a []Val, in ssa.Value) (Val, bool) {
			s, p := a[0].T, a[1].T
			return Val{T: and(sx(">=", sx("slen", s), sx("slen", p)), eq(sx("substr", s, sx("-", sx("slen", s), sx("slen", p)), sx("slen", s)), p))}, true
		},
		"(time.Duration).Nanoseconds": func(x *Exec, f *frame, m int, a []Val, in ssa.Value) (Val, bool) {
			return a[0], true
		},
		"(time.Time).IsZero": func(x *Exec, f *frame, m int, a []Val, in ssa.Value) (Val, bool) {
			x.assumed["time.Time modelled abstractly: IsZero/Before/After/Add/Sub via uninterpreted nanosecond value time_ns"] = true
			return Val{T: eq(x.timeNS(a[0].T), "time_zero")}, true
		},
		"(time.Time).Before": func(x *Exec, f *frame, m int, a []Val, in ssa.Value) (Val, bool) {
			return Val{T: sx("<", x.timeNS(a[0].T), x.timeNS(a[1].T))}, true
		},
		"(time.Time).After": func(x *Exec, f *frame, m int, a []Val, in ssa.Value) (Val, bool) {
			return Val{T: sx(">", x.timeNS(a[0].T), x.timeNS(a[1].T))}, true
		},
		"(time.Time).Equal": func(x *Exec, f *frame, m int, a []Val, in ssa.Value) (Val, bool) {
			return Val{T: eq(x.timeNS(a[0].T), x.timeNS(a[1].T))}, true
		},
		"(time.Time).Add": func(x *Exec, f *frame, m int, a []Val, in ssa.Value) (Val, bool) {
			if x.X.bvMode {
				return Val{}, false
			}
			x.timeNS(a[0].T)
			x.X.declare("time_add", "(declare-fun time_add (S_time_Time Int) S_time_Time)\n(assert (forall ((t S_time_Time) (d Int)) (! (= (time_ns (time_add t d)) (+ (time_ns t) d)) :pattern ((time_add t d)))))")
			x.assumed["time.Time.Add/Sub: exact on the abstract nanosecond value (no saturation: times within +-292 years of each other)"] = true
			return Val{T: sx("time_add", a[0].T, a[1].T)}, true
		},
		"(time.Time).Sub": func(x *Exec, f *frame, m int, a []Val, in ssa.Value) (Val, bool) {
			if x.X.bvMode {
				return Val{}, false
			}
			x.assumed["time.Time.Add/Sub: exact on the abstract nanosecond value (no saturation: times within +-292 years of each other)"] = true
			return Val{T: sx("wrapS64", sx("-", x.timeNS(a[0].T), x.timeNS(a[1].T)))}, true
		},
		"(time.Time).UnixNano": func(x *Exec, f *frame, m int, a []Val, in ssa.Value) (Val, bool) {
			x.assumed["time.Time.UnixNano: value within int64 range (dates 1678..2262)"] = true
			return Val{T: sx("wrapS64", x.timeNS(a[0].T))}, true
		},
	} {
		pureExterns[k] = v
	}
}

func (x *Exec) useLower() {
	x.X.declare("loweraxioms", `
(assert (forall ((s Str)) (! (=> (strok s) (and (= (slen (strlower s)) (slen s)) (= (strlower (strlower s)) (strlower s)) (strok (strlower s))
  (forall ((i Int)) (! (= (select (sdata (strlower s)) i) (let ((c (select (sdata s) i))) (ite (and (<= 65 c) (<= c 90)) (+ c 32) c))) :pattern ((select (sdata (strlower s)) i)))))) :pattern ((strlower s)))))`)
	// NOTE: the guard (strok s) is essential: quantifying over *all* Str values, including
	// ill-formed ones (bytes outside 0..255), made the unguarded axiom inconsistent (found by a
	// vacuity probe: cvc5 derived false from it).
	x.assumed["strings.ToLower modelled as byte-wise ASCII lower-casing (exact for ASCII strings; non-ASCII case mapping not modelled)"] = true
}

func (x *Exec) timeNS(t Term) Term {
	ts := "S_time_Time"
	z := "(mk_S_time_Time 0 0 0)"
	if x.X.bvMode {
		z = "(mk_S_time_Time (_ bv0 64) (_ bv0 64) 0)"
	}
	// the zero Time value (time.Time{}) is the one IsZero recognises
	x.X.declare("time_ns", fmt.Sprintf("(declare-fun time_ns (%s) Int)\n(declare-const time_zero Int)\n(assert (= (time_ns %s) time_zero))", ts, z))
	return sx("time_ns", t)
}

// externPure: pure externs usable from specifications and code alike.
func (x *Exec) externPure(f *frame, callee *ssa.Function, in *ssa.Call, args []dual) (dual, bool) {
	name := callee.String()
	if o := callee.Origin(); o != nil {
		name = o.String()
	}
	if h, ok := pureExterns[name]; ok && h != nil {
		var r dual
		for m := 0; m < 2; m++ {
			var av []Val
			for _, a := range args {
				av = append(av, a[m])
			}
			v, ok := h(x, f, m, av, in)
			if !ok {
				return r, false
			}
			r[m] = v
		}
		x.assumed["extern "+name] = true
		return r, true
	}
	return dual{}, false
}

func (x *Exec) externInvokePure(f *frame, in *ssa.Call, args []dual) (dual, bool) {
	var r dual
	for m := 0; m < 2; m++ {
		f.mode = m
		recv := f.get(in.Call.Value).T
		var av []Val
		for _, a := range args {
			av = append(av, a[m])
		}
		v, ok := x.pureIfaceCall(&in.Call, recv, av)
		if !ok {
			return dual{}, false
		}
		r[m] = v
	}
	return r, true
}

// externCall: effects / results of calls to functions without contracts in main mode.
func (x *Exec) externCall(f *frame, in ssa.Instruction, callee *ssa.Function, c *ssa.CallCommon, args []Val) (Val, bool) {
	st := f.st
	name := callee.String()
	if o := callee.Origin(); o != nil {
		name = o.String()
	}
	if v, ok := x.atomicTyped(f, in, name, c, args); ok {
		return v, true
	}
	if h, ok := pureExterns[name]; ok && h != nil {
		v, ok := h(x, f, 0, args, in.(ssa.Value))
		if ok {
			x.assumed["extern "+name] = true
			if v.T != "" {
				if iv, isv := in.(ssa.Value); isv && iv.Type() != nil {
					if _, tup := iv.Type().(*types.Tuple); !tup {
						v.T = x.define(x.fresh("ext"), x.X.sortOf(iv.Type()), v.T)
						x.assume(st, x.typeInv(iv.Type(), v.T, st))
					}
				}
			}
			return v, true
		}
	}
	if h, ok := effectExterns[name]; ok {
		if v, ok := h(x, f, in, args); ok {
			return v, true
		}
	}
	if v, ok := x.atomicCall(f, in, name, c, args); ok {
		return v, true
	}
	switch name {
	case "strconv.ParseUint":
		// base 10, 64 bits only
		if b, ok := litVal(args[1].T); ok && b.Int64() == 10 {
			if w, ok := litVal(args[2].T); ok && w.Int64() == 64 {
				x.useDec()
				x.assumed["extern strconv.ParseUint(s,10,64): err==nil iff s is a non-empty string of ASCII digits whose value is < 2^64; value is its decimal value"] = true
				s := args[0].T
				ok := x.define(x.fresh("pu_ok"), "Bool", and(sx(">", sx("slen", s), "0"), sx("str_isdigits", s), sx("<", sx("str_parsedec", s), intLit(pow2(64)))))
				v := x.havocValue(st, types.Typ[types.Uint64], "pu_v")
				e := x.havocConst("pu_err", "Int")
				x.assume(st, ite(ok, and(eq(e, "0"), eq(v, sx("str_parsedec", s))), not(eq(e, "0"))))
				return Val{Tu: []Val{{T: v}, {T: e}}}, true
			}
		}
	case "fmt.Errorf", "errors.New", "google.golang.org/grpc/status.Errorf", "google.golang.org/grpc/status.Error", "google.golang.org/grpc/internal/status.Errorf", "google.golang.org/grpc/internal/status.Error":
		x.assumed["extern "+name+": returns a non-nil error and has no effect on modelled state"] = true
		e := x.havocConst("err", "Int")
		if strings.Contains(name, "status.") {
			// status.Error(c, msg): nil for codes.OK, otherwise a non-nil error that carries a
			// gRPC status with code c
			x.assume(st, ite(eq(args[0].T, "0"), eq(e, "0"), and(sx(">", e, "0"), x.isStatus(e), eq(x.statusCode(e), args[0].T))))
		} else {
			x.assume(st, sx(">", e, "0"))
		}
		return Val{T: e}, true
	case "(*sync.Mutex).Lock", "(*sync.RWMutex).Lock", "(*sync.RWMutex).RLock":
		x.lockOp(f, in, c, args, true)
		return Val{}, true
	case "(*sync.Mutex).Unlock", "(*sync.RWMutex).Unlock", "(*sync.RWMutex).RUnlock":
		x.lockOp(f, in, c, args, false)
		return Val{}, true
	case "google.golang.org/grpc/status.FromError", "google.golang.org/grpc/internal/status.FromError":
		// is_status(e) is defined as "status.FromError(e) succeeds" for non-nil e (e carries a gRPC
		// status, directly or by wrapping); a nil error converts to (nil, true)
		x.assumed["extern status.FromError: ok iff err == nil or err carries a gRPC status (definition of the predicate isstatus)"] = true
		s := x.havocValue(st, callee.Signature.Results().At(0).Type(), "st")
		ok := x.define(x.fresh("fromerr_ok"), "Bool", or(eq(args[0].T, "0"), x.isStatus(args[0].T)))
		x.assume(st, implies(eq(args[0].T, "0"), eq(s, "0")))
		return Val{Tu: []Val{{T: s}, {T: ok}}}, true
	case "google.golang.org/grpc/status.Code":
		x.assumed["extern status.Code: OK for nil, the carried code for status errors, Unknown otherwise"] = true
		c := x.define(x.fresh("code"), x.X.sortOf(callee.Signature.Results().At(0).Type()), ite(eq(args[0].T, "0"), "0", ite(x.isStatus(args[0].T), x.statusCode(args[0].T), "2")))
		return Val{T: c}, true
	case "sort.Search":
		if v, ok := x.sortSearch(f, in, args); ok {
			return v, true
		}
	case "math/rand/v2.Float64", "math/rand.Float64":
		return x.randFloat64(st), true
	case "math/rand/v2.Int32N", "math/rand/v2.IntN", "math/rand/v2.Int64N", "math/rand/v2.Uint32N", "math/rand/v2.Uint64N", "math/rand/v2.UintN",
		"math/rand.Intn", "math/rand.Int31n", "math/rand.Int63n":
		// rand.IntN(n) and friends: any r with 0 <= r < n; panics for n <= 0 (obligation at the call)
		rt := callee.Signature.Results().At(0).Type()
		zero := x.X.zero(rt)
		x.safety(st, "panic", x.binop(token.GTR, args[0].T, zero, rt, rt, types.Typ[types.Bool]), in.Pos())
		r := x.havocValue(st, rt, "rand")
		x.assume(st, and(x.binop(token.GEQ, r, zero, rt, rt, types.Typ[types.Bool]), x.binop(token.LSS, r, args[0].T, rt, rt, types.Typ[types.Bool])))
		x.comp("Ghost_lastrand", x.X.sortOf(rt))
		st.heap["Ghost_lastrand"] = r
		x.lastRand = r
		x.assumed["extern "+name+": any r with 0 <= r < n, no effect on modelled state; panics for n <= 0 (proof obligation at the call)"] = true
		return Val{T: r}, true
	case "time.Now":
		return x.clockValue(st, callee.Signature.Results().At(0).Type(), "time.Now"), true
	}
	// resolver.EndpointMap[T] (generic container, opaque to the model): Get/Len read it, Set and
	// Delete change only the map itself, which no modelled heap component represents
	if strings.HasPrefix(name, "(*google.golang.org/grpc/resolver.EndpointMap[") {
		switch baseName(callee) {
		case "Get", "Set", "Delete", "Len":
			x.assumed["extern resolver.EndpointMap."+baseName(callee)+": reads / changes only the map object itself (result unconstrained)"] = true
			return x.resultVal(st, callee.Signature, "epmap"), true
		}
	}
	// mem.Reader / mem.BufferSlice (pooled buffer cursors): operations touch only the reader /
	// the buffers' reference counts; results unconstrained except where stated
	if strings.HasPrefix(name, "(*google.golang.org/grpc/mem.Reader).") || name == "(google.golang.org/grpc/mem.BufferSlice).Free" {
		switch baseName(callee) {
		case "Reset", "Close", "Discard", "Free", "Peek":
			x.assumed["extern "+name+": changes only the reader's cursor / buffer reference counts (result unconstrained)"] = true
			if bn := baseName(callee); bn != "Peek" && bn != "Free" && len(args) > 0 && args[0].T != "" {
				// the number of unread bytes of this reader changes (to an unknown value)
				x.comp("MemRd_remaining", "(Array Int Int)")
				h := x.heapGet(st, "MemRd_remaining", "(Array Int Int)")
				st.heap["MemRd_remaining"] = x.define(x.fresh("MemRd_remaining"), "(Array Int Int)", sx("store", h, args[0].T, x.havocConst("rem", "Int")))
			}
			return x.resultVal(st, callee.Signature, "memrd"), true
		case "Remaining":
			x.assumed["extern (*mem.Reader).Remaining: number of unread bytes (>= 0), the same until the reader is reset, discarded from or closed; no effect"] = true
			if len(args) > 0 && args[0].T != "" {
				x.comp("MemRd_remaining", "(Array Int Int)")
				r := x.define(x.fresh("remaining"), "Int", sx("select", x.heapGet(st, "MemRd_remaining", "(Array Int Int)"), args[0].T))
				x.assume(st, and(sx(">=", r, "0"), sx("<=", r, "281474976710656")))
				return Val{T: f.fromInt(r, callee.Signature.Results().At(0).Type())}, true
			}
			r := x.resultVal(st, callee.Signature, "remaining")
			x.assume(st, sx(">=", f.toInt(r.T, callee.Signature.Results().At(0).Type()), "0"))
			return r, true
		}
	}
	// loggers and other effect-free helpers
	if strings.HasPrefix(name, "sync.OnceFunc") || strings.HasPrefix(name, "sync.OnceValue") {
		// sync.OnceFunc(f): a non-nil function that runs f at most once (the call itself runs nothing)
		x.assumed["extern "+name+": returns a non-nil function that runs its argument at most once; the call itself has no effect"] = true
		r := x.resultVal(st, callee.Signature, "once")
		if r.T != "" {
			x.assume(st, not(eq(r.T, "0")))
		}
		return r, true
	}
	if isEffectFree(name) {
		x.assumed["extern "+name+": no effect on modelled state (logging/formatting/tracing)"] = true
		return x.resultVal(st, callee.Signature, "eff"), true
	}
	// automatically inlined pure helper (getters, small predicates)
	if isPureSimple(callee, 0, map[*ssa.Function]bool{}) {
		var dargs []dual
		for _, a := range args {
			dargs = append(dargs, dualOf(a))
		}
		d := x.evalPure(callee, dargs, nil, [2]memView{stateView{x, st}, stateView{x, st}}, 1)
		x.assumed["inlined pure helper "+name+" (body substituted; its own panic-freedom is not checked here)"] = false
		v := d[0]
		if v.T != "" && !isSimpleTerm(v.T) {
			rt := callee.Signature.Results().At(0).Type()
			v.T = x.define(x.fresh("inl"), x.X.sortOf(rt), v.T)
		}
		if v.T != "" && callee.Signature.Results().Len() == 1 {
			// the value returned is a value of the result type (fields read inside the
			// substituted body carry no range facts of their own)
			x.assume(st, x.typeInv(callee.Signature.Results().At(0).Type(), v.T, st))
		}
		return v, true
	}
	return Val{}, false
}

func (x *Exec) isStatus(e Term) Term {
	x.X.declare("is_status", "(declare-fun is_status (Int) Bool)")
	return sx("is_status", e)
}

func (x *Exec) statusCode(e Term) Term {
	x.X.declare("status_code", "(declare-fun status_code (Int) Int)")
	return sx("status_code", e)
}

func isEffectFree(name string) bool {
	for _, p := range []string{
		"(*google.golang.org/grpc/internal/grpclog.PrefixLogger).", "(*google.golang.org/grpc/grpclog.", "google.golang.org/grpc/grpclog.", "(google.golang.org/grpc/grpclog.",
		"fmt.Sprintf", "fmt.Sprint", "google.golang.org/grpc/internal/channelz.", "(*google.golang.org/grpc/internal/grpclog.",
		"strconv.ParseInt", "strconv.Atoi", "strconv.ParseBool", "strconv.ParseFloat", "(*regexp.Regexp).MatchString", "(*regexp.Regexp).String",
		"strings.Join", "strings.Split", "strings.TrimSpace", "strings.EqualFold", "strings.Contains", "github.com/cespare/xxhash/v2.Sum64String", "github.com/cespare/xxhash/v2.Sum64",
		"google.golang.org/grpc/balancer/base.NewErrPicker",
		"math.", // package math: pure functions (result unconstrained unless modelled elsewhere)
		// metric handles: Record forwards to the MetricsRecorder plugin (telemetry only)
		"(*google.golang.org/grpc/experimental/stats.Int64CountHandle).Record", "(*google.golang.org/grpc/experimental/stats.Float64CountHandle).Record",
		"(*google.golang.org/grpc/experimental/stats.Int64HistoHandle).Record", "(*google.golang.org/grpc/experimental/stats.Float64HistoHandle).Record",
		"(*google.golang.org/grpc/experimental/stats.Int64GaugeHandle).Record", "(*google.golang.org/grpc/experimental/stats.Int64UpDownCountHandle).Record",
		"google.golang.org/grpc/internal/grpclog.",
		// timers: Stop/Reset report whether the timer was active (result unconstrained); AfterFunc/NewTimer
		// register a callback or channel; none of them touches modelled state synchronously
		"(*time.Timer).Stop", "(*time.Timer).Reset", "time.AfterFunc", "time.NewTimer",
		// derived contexts: a fresh context (and cancel function); nothing the caller can see changes
		"context.WithCancel", "context.WithTimeout", "context.WithDeadline", "context.WithValue", "context.WithoutCancel",
		"(*encoding/base64.Encoding).DecodeString", "(*encoding/base64.Encoding).EncodeToString",
		"google.golang.org/grpc/metadata.NewIncomingContext", "google.golang.org/grpc/status.FromError",
		"net.JoinHostPort", "net.SplitHostPort", "google.golang.org/grpc/internal/pretty.ToJSON", "google.golang.org/grpc/internal/pretty.FormatJSON",
		// xDS dependency manager: registers a cluster subscription inside the manager, returns the unsubscribe function
		"(*google.golang.org/grpc/internal/xds/xdsdepmgr.DependencyManager).SubscribeToCluster",
	} {
		if strings.HasPrefix(name, p) {
			return true
		}
	}
	return false
}

func (x *Exec) externInvoke(f *frame, in ssa.Instruction, c *ssa.CallCommon, args []Val) (Val, bool) {
	name := c.Method.FullName()
	if v, ok := x.pureIfaceCall(c, x.val(c.Value).T, args); ok {
		if !isSimpleTerm(v.T) {
			v.T = x.define(x.fresh("im"), x.X.sortOf(c.Signature().Results().At(0).Type()), v.T)
		}
		x.assume(f.st, x.typeInv(c.Signature().Results().At(0).Type(), v.T, f.st))
		return v, true
	}
	switch {
	case (strings.Contains(name, "grpclog.") || strings.Contains(name, "grpclog/internal.")) && (strings.HasSuffix(name, ".V") || strings.Contains(name, ".Info") || strings.Contains(name, ".Warning") || strings.Contains(name, ".Error")):
		x.assumed["extern "+name+": no effect on modelled state (logging)"] = true
		return x.resultVal(f.st, c.Signature(), "log"), true
	case name == "(context.Context).Value" || name == "(context.Context).Err" || name == "(context.Context).Done" || name == "(context.Context).Deadline":
		x.assumed["extern "+name+": reads the context (no effect on modelled state; result unconstrained)"] = true
		return x.resultVal(f.st, c.Signature(), "ctx"), true
	case strings.HasSuffix(name, "/internal/xds/rbac.matcher).match") || strings.HasSuffix(name, "/internal/xds/matcher.HeaderMatcher).Match"):
		// RBAC / header matchers: predicates over the request data (no effects; result unconstrained here,
		// each implementation has its own contract)
		x.assumed["extern "+name+": a predicate over the request data, no effect on modelled state"] = true
		return x.resultVal(f.st, c.Signature(), "matchres"), true
	case strings.HasPrefix(name, "(google.golang.org/grpc/mem.Buffer)."):
		x.assumed["extern "+name+": reads the buffer / changes only its reference count (C53 covers the implementations); no effect on the caller's modelled state"] = true
		return x.resultVal(f.st, c.Signature(), "membuf"), true
	case name == "(google.golang.org/grpc/mem.BufferPool).Get" || name == "(google.golang.org/grpc/mem.BufferPool).Put":
		x.assumed["extern "+name+": the buffer pool hands out / takes back a byte slice; no effect on modelled state other than the pool itself"] = true
		return x.resultVal(f.st, c.Signature(), "pool"), true
	case name == "(error).Error":
		x.assumed["extern (error).Error: no effect on modelled state"] = true
		return x.resultVal(f.st, c.Signature(), "errstr"), true
	}
	return Val{}, false
}

func (x *Exec) externFuncValue(f *frame, in ssa.Instruction, c *ssa.CallCommon, args []Val) (Val, bool) {
	return x.funcVarCall(f, in, c, args)
}

// ---------------------------------------------------------------------------
// monitors

func (x *Exec) lockOp(f *frame, in ssa.Instruction, c *ssa.CallCommon, args []Val, lock bool) {
	st := f.st
	// receiver is &obj.mu : a FieldAddr producing a sub-ref; find the owner struct and field
	var owner ssa.Value
	var ownerT types.Type
	var fieldName string
	if fa, ok := c.Args[0].(*ssa.FieldAddr); ok {
		owner = fa.X
		ownerT = deref(fa.X.Type())
		fieldName = ownerT.Underlying().(*types.Struct).Field(fa.Field).Name()
	}
	if owner == nil {
		x.abstract("lock operation on a mutex that is not a struct field")
		if lock {
			x.unknownEffect(st, in.Pos())
		}
		return
	}
	named, _ := ownerT.(*types.Named)
	var mon *MonitorDecl
	if named != nil && named.Obj().Pkg() != nil {
		mon = x.L.Monitors[named.Obj().Pkg().Path()+"."+named.Obj().Name()+"."+fieldName]
	}
	ov := x.val(owner)
	if x.fc != nil && x.fc.Opts["atomic"] == fieldName {
		// `opt atomic mu`: the method holds the mutex around every access to the receiver's
		// state, so it is one atomic action and histories are sequences of whole operations;
		// accesses outside the critical section are rejected below (x.lockDepth).
		if lock {
			x.inCrit = true
		} else if _, isDefer := in.(*ssa.Defer); !isDefer {
			x.inCrit = false
		}
		x.assumed[fmt.Sprintf("%s: critical section under %s.%s treated as one atomic action (all accesses to the protected state are between Lock and the deferred/last Unlock — checked; other goroutines act only between operations)", x.short, typeShort(ownerT), fieldName)] = true
		if mon != nil && len(mon.Invs) > 0 {
			// the declared invariant of this mutex: assumed when the lock is taken, to be
			// re-established whenever it is released
			if lock {
				for _, inv := range mon.Invs {
					x.assume(st, x.evalMonInv(inv, named, ov, st))
				}
			} else {
				for k, inv := range mon.Invs {
					t := x.evalMonInv(inv, named, ov, st)
					props := mon.Props
					if len(props) == 0 {
						props = x.props()
					}
					o := x.oblige(st, "mon-inv", fmt.Sprintf("mon-inv:%d:%d", x.ordinalPeek("unlock")+1, k+1), t, in.Pos(), false, props)
					o.Clause, o.Line = inv.Text, inv.Line
				}
				x.ordinal("unlock")
			}
		}
		return
	}
	if mon == nil {
		// undeclared monitor: other goroutines may change anything while the lock is not held
		if lock {
			x.abstract(fmt.Sprintf("Lock on %s.%s without monitor declaration (heap havocked at acquisition)", typeShort(ownerT), fieldName))
			x.unknownEffect(st, in.Pos())
		}
		return
	}
	sstruct := ownerT.Underlying().(*types.Struct)
	if lock {
		// havoc protected fields of this object, assume the invariant
		for _, p := range mon.Protects {
			for k := 0; k < sstruct.NumFields(); k++ {
				if sstruct.Field(k).Name() != p {
					continue
				}
				if isStruct(sstruct.Field(k).Type()) {
					x.abstract("monitor-protected struct-valued field " + p + " (havoc of nested fields not modelled)")
					continue
				}
				cn, srt, ft := x.fieldComp(ownerT, k)
				h := x.heapGet(st, cn, srt)
				nv := x.havocConst("mon_"+p, x.X.sortOf(ft))
				st.heap[cn] = x.define(x.fresh(cn), srt, sx("store", h, ov.T, nv))
				x.assume(st, x.typeInv(ft, nv, st))
			}
		}
		for _, g := range x.ghostsOf(named) {
			cn := "Ghost_" + g.Name
			srt := x.comps[cn]
			if srt == "" {
				continue
			}
			h := x.heapGet(st, cn, srt)
			nv := x.havocConst("mon_"+g.Name, elemSortOfArray(srt))
			st.heap[cn] = x.define(x.fresh(cn), srt, sx("store", h, ov.T, nv))
		}
		for _, inv := range mon.Invs {
			x.assume(st, x.evalMonInv(inv, named, ov, st))
		}
		x.assumed[fmt.Sprintf("monitor %s.%s: protected fields are accessed only with the lock held (lock discipline; checked by the race detector in the repo's CI, not here)", named.Obj().Name(), mon.Mu)] = true
		st.holdMon(heldMon{mon: mon, owner: ov.T, ownerT: ownerT})
		return
	}
	if _, isDefer := in.(*ssa.Defer); !isDefer {
		st.releaseMon(mon, ov.T)
	}
	for k, inv := range mon.Invs {
		t := x.evalMonInv(inv, named, ov, st)
		props := mon.Props
		if len(props) == 0 {
			props = x.props()
		}
		o := x.oblige(st, "mon-inv", fmt.Sprintf("mon-inv:%d:%d", x.ordinalPeek("unlock")+1, k+1), t, in.Pos(), false, props)
		o.Clause, o.Line = inv.Text, inv.Line
	}
	x.ordinal("unlock")
}

func (x *Exec) ordinalPeek(kind string) int { return x.ordinals[kind] }

func (x *Exec) ghostsOf(named *types.Named) []*GhostField {
	var out []*GhostField
	if named == nil || named.Obj().Pkg() == nil {
		return nil
	}
	pc := x.L.Contracts[named.Obj().Pkg().Path()]
	if pc == nil {
		return nil
	}
	for _, g := range pc.Ghosts {
		if g.Type == named.Obj().Name() {
			out = append(out, g)
		}
	}
	return out
}

func (x *Exec) evalMonInv(c *Clause, named *types.Named, self Val, st *State) Term {
	sp := x.L.SSAPkgs[named.Obj().Pkg().Path()]
	if sp == nil {
		return "true"
	}
	cf := sp.Func(c.FnSym)
	if cf == nil {
		x.errorf("monitor invariant function %s not found", c.FnSym)
		return "true"
	}
	d := x.evalPure(cf, []dual{dualOf(self)}, nil, [2]memView{stateView{x, st}, stateView{x, x.entry}}, 0)
	return d[0].T
}

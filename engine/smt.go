package main

// SMT-LIB text helpers, sorts, and the fixed prelude.

import (
	"fmt"
	"go/types"
	"math/big"
	"sort"
	"strings"
)

type Term = string

func sx(parts ...string) Term { return "(" + strings.Join(parts, " ") + ")" }

func and(ts ...Term) Term {
	var out []Term
	for _, t := range ts {
		if t == "true" || t == "" {
			continue
		}
		if t == "false" {
			return "false"
		}
		out = append(out, t)
	}
	switch len(out) {
	case 0:
		return "true"
	case 1:
		return out[0]
	}
	return "(and " + strings.Join(out, " ") + ")"
}

func or(ts ...Term) Term {
	var out []Term
	for _, t := range ts {
		if t == "false" || t == "" {
			continue
		}
		if t == "true" {
			return "true"
		}
		out = append(out, t)
	}
	switch len(out) {
	case 0:
		return "false"
	case 1:
		return out[0]
	}
	return "(or " + strings.Join(out, " ") + ")"
}

func not(t Term) Term {
	switch t {
	case "true":
		return "false"
	case "false":
		return "true"
	}
	if strings.HasPrefix(t, "(not ") && strings.HasSuffix(t, ")") {
		inner := t[5 : len(t)-1]
		if balanced(inner) {
			return inner
		}
	}
	return "(not " + t + ")"
}

func balanced(s string) bool {
	d := 0
	for i := 0; i < len(s); i++ {
		switch s[i] {
		case '(':
			d++
		case ')':
			d--
			if d < 0 {
				return false
			}
			if d == 0 && i != len(s)-1 {
				return false
			}
		case ' ':
			if d == 0 {
				return false
			}
		}
	}
	return d == 0
}

func implies(a, b Term) Term {
	if a == "true" {
		return b
	}
	if a == "false" || b == "true" {
		return "true"
	}
	return "(=> " + a + " " + b + ")"
}

func ite(c, a, b Term) Term {
	if c == "true" {
		return a
	}
	if c == "false" {
		return b
	}
	if a == b {
		return a
	}
	// Boolean ite with a constant branch: plain connectives (keeps quantifiers that come
	// from `p && forall(...)` at a position where solvers can skolemise/instantiate them)
	switch {
	case b == "false":
		return and(c, a)
	case a == "true":
		return or(c, b)
	case b == "true":
		return implies(c, a)
	case a == "false":
		return and(not(c), b)
	}
	return "(ite " + c + " " + a + " " + b + ")"
}

func eq(a, b Term) Term {
	if a == b {
		return "true"
	}
	return "(= " + a + " " + b + ")"
}

func intLit(v *big.Int) Term {
	if v.Sign() < 0 {
		return "(- " + new(big.Int).Neg(v).String() + ")"
	}
	return v.String()
}

func intLit64(v int64) Term { return intLit(big.NewInt(v)) }

func pow2(n int) *big.Int { return new(big.Int).Lsh(big.NewInt(1), uint(n)) }

// ---------------------------------------------------------------------------

const prelude = `
(set-option :produce-models true)
(set-logic ALL)
(declare-datatypes ((Str 0)) (((mkstr (sdata (Array Int Int)) (slen Int)))))
(declare-datatypes ((Slice 0)) (((mkslice (sbase Int) (soff Int) (sllen Int) (scap Int)))))
(define-fun zarr () (Array Int Int) ((as const (Array Int Int)) 0))
(define-fun strempty () Str (mkstr zarr 0))
(define-fun strcanon ((s Str)) Bool (and (>= (slen s) 0) (<= (slen s) 281474976710656) (forall ((i Int)) (! (=> (or (< i 0) (>= i (slen s))) (= (select (sdata s) i) 0)) :pattern ((select (sdata s) i))))))
(define-fun strbytes ((s Str)) Bool (forall ((i Int)) (! (and (<= 0 (select (sdata s) i)) (<= (select (sdata s) i) 255)) :pattern ((select (sdata s) i)))))
(define-fun strok ((s Str)) Bool (and (strcanon s) (strbytes s)))
(define-fun slicenil () Slice (mkslice 0 0 0 0))
(define-fun sliceok ((s Slice)) Bool (and (<= 0 (soff s)) (<= 0 (sllen s)) (<= (sllen s) (scap s)) (<= (scap s) 281474976710656) (=> (= (sbase s) 0) (= (scap s) 0))))
(define-fun tdiv ((a Int) (b Int)) Int (ite (>= a 0) (ite (> b 0) (div a b) (- (div a (- b)))) (ite (> b 0) (- (div (- a) b)) (div (- a) (- b)))))
(define-fun trem ((a Int) (b Int)) Int (- a (* b (tdiv a b))))
(define-fun wrapU8 ((x Int)) Int (mod x 256))
(define-fun wrapU16 ((x Int)) Int (mod x 65536))
(define-fun wrapU32 ((x Int)) Int (mod x 4294967296))
(define-fun wrapU64 ((x Int)) Int (mod x 18446744073709551616))
(define-fun wrapS8 ((x Int)) Int (- (mod (+ x 128) 256) 128))
(define-fun wrapS16 ((x Int)) Int (- (mod (+ x 32768) 65536) 32768))
(define-fun wrapS32 ((x Int)) Int (- (mod (+ x 2147483648) 4294967296) 2147483648))
(define-fun wrapS64 ((x Int)) Int (- (mod (+ x 9223372036854775808) 18446744073709551616) 9223372036854775808))
(define-fun imin ((a Int) (b Int)) Int (ite (<= a b) a b))
(define-fun imax ((a Int) (b Int)) Int (ite (>= a b) a b))
(declare-fun band (Int Int) Int)
(declare-fun bor (Int Int) Int)
(declare-fun bxor (Int Int) Int)
(declare-fun itype (Int) Int)
(declare-fun str_isdigits (Str) Bool)
(declare-fun str_parsedec (Str) Int)
(declare-fun decstr (Int) Str)
(declare-fun strlower (Str) Str)
`

var optionalPrelude = []struct{ sym, text string }{
	{"elemref", `(declare-fun elemref (Int Int) Int)
(declare-fun elemref_base (Int) Int)
(declare-fun elemref_idx (Int) Int)
(assert (forall ((b Int) (i Int)) (! (and (= (elemref_base (elemref b i)) b) (= (elemref_idx (elemref b i)) i) (< (elemref b i) 0)) :pattern ((elemref b i)))))`},
	{"strcat", `(declare-fun strcat (Str Str) Str)
(assert (forall ((a Str) (b Str)) (! (and (= (slen (strcat a b)) (+ (slen a) (slen b)))
  (forall ((i Int)) (! (= (select (sdata (strcat a b)) i) (ite (< i (slen a)) (select (sdata a) i) (select (sdata b) (- i (slen a))))) :pattern ((select (sdata (strcat a b)) i))))) :pattern ((strcat a b)))))`},
	{"substr", `(declare-fun substr (Str Int Int) Str)
(assert (forall ((s Str) (lo Int) (hi Int)) (! (and (= (slen (substr s lo hi)) (- hi lo))
  (forall ((i Int)) (! (= (select (sdata (substr s lo hi)) i) (ite (and (<= 0 i) (< i (- hi lo))) (select (sdata s) (+ i lo)) 0)) :pattern ((select (sdata (substr s lo hi)) i))))) :pattern ((substr s lo hi)))))`},
	{"strlt", `(declare-fun strlt (Str Str) Bool)`},
	{"strofbytes", `(declare-fun strofbytes ((Array Int Int) Int Int) Str)
(assert (forall ((a (Array Int Int)) (off Int) (n Int)) (! (and (= (slen (strofbytes a off n)) n)
  (forall ((i Int)) (! (= (select (sdata (strofbytes a off n)) i) (ite (and (<= 0 i) (< i n)) (select a (+ off i)) 0)) :pattern ((select (sdata (strofbytes a off n)) i))))) :pattern ((strofbytes a off n)))))`},
}

// integer type info
type intInfo struct {
	bits   int
	signed bool
	math   bool // unbounded spec integer (type Z)
}

func (x *Xlat) intInfoOf(t types.Type) (intInfo, bool) {
	if n, ok := t.(*types.Named); ok && n.Obj().Name() == "Z" && x.isSpecPkgObj(n.Obj()) {
		return intInfo{math: true}, true
	}
	b, ok := t.Underlying().(*types.Basic)
	if !ok {
		return intInfo{}, false
	}
	switch b.Kind() {
	case types.Int, types.Int64, types.UntypedInt, types.UntypedRune:
		return intInfo{64, true, false}, true
	case types.Int8:
		return intInfo{8, true, false}, true
	case types.Int16:
		return intInfo{16, true, false}, true
	case types.Int32:
		return intInfo{32, true, false}, true
	case types.Uint, types.Uint64, types.Uintptr:
		return intInfo{64, false, false}, true
	case types.Uint8:
		return intInfo{8, false, false}, true
	case types.Uint16:
		return intInfo{16, false, false}, true
	case types.Uint32:
		return intInfo{32, false, false}, true
	}
	return intInfo{}, false
}

func (ii intInfo) min() *big.Int {
	if !ii.signed {
		return big.NewInt(0)
	}
	return new(big.Int).Neg(pow2(ii.bits - 1))
}
func (ii intInfo) max() *big.Int {
	if !ii.signed {
		return new(big.Int).Sub(pow2(ii.bits), big.NewInt(1))
	}
	return new(big.Int).Sub(pow2(ii.bits-1), big.NewInt(1))
}
func (ii intInfo) wrapFn() string {
	if ii.signed {
		return fmt.Sprintf("wrapS%d", ii.bits)
	}
	return fmt.Sprintf("wrapU%d", ii.bits)
}
func (ii intInfo) wrap(t Term) Term {
	if ii.math {
		return t
	}
	return sx(ii.wrapFn(), t)
}
func (ii intInfo) inRange(t Term) Term {
	if ii.math {
		return "true"
	}
	return and(sx("<=", intLit(ii.min()), t), sx("<=", t, intLit(ii.max())))
}

// Xlat holds per-run translation tables shared by all functions of a run.
type Xlat struct {
	specPkgs    map[*types.Package]bool // packages that contain generated spec helpers
	structSorts map[string]*structSort
	structOrder []string
	decls       []string // extra global declarations (struct datatypes, heap-independent functions)
	declSeen    map[string]bool
	typeIDs     map[string]int
	bvMode      bool
}

type structSort struct {
	name   string
	fields []*types.Var
	st     *types.Struct
}

func newXlat() *Xlat {
	return &Xlat{specPkgs: map[*types.Package]bool{}, structSorts: map[string]*structSort{}, declSeen: map[string]bool{}, typeIDs: map[string]int{}}
}

func (x *Xlat) isSpecPkgObj(o types.Object) bool {
	return o.Pkg() != nil && x.specPkgs[o.Pkg()]
}

func sanitize(s string) string {
	var b strings.Builder
	for _, r := range s {
		switch {
		case r >= 'a' && r <= 'z', r >= 'A' && r <= 'Z', r >= '0' && r <= '9', r == '_':
			b.WriteRune(r)
		case r == '.' || r == '/':
			b.WriteByte('_')
		case r == '*':
			b.WriteString("P")
		case r == '[' || r == ']':
			b.WriteString("L")
		default:
			b.WriteByte('_')
		}
	}
	return b.String()
}

// first full name seen for each short type name (generation is single-threaded)
var shortOwner = map[string]string{}

// short name for a named type: pkgname_TypeName
func typeShort(t types.Type) string {
	switch t := t.(type) {
	case *types.Named:
		o := t.Obj()
		s := o.Name()
		if o.Pkg() != nil {
			s = o.Pkg().Name() + "_" + s
			// two packages with the same name (sync and internal/sync): disambiguate by path
			full := o.Pkg().Path() + "." + o.Name()
			if prev, ok := shortOwner[s]; ok && prev != full {
				s = sanitize(o.Pkg().Path()) + "_" + o.Name()
			} else {
				shortOwner[s] = full
			}
		}
		if ta := t.TypeArgs(); ta != nil && ta.Len() > 0 {
			for i := 0; i < ta.Len(); i++ {
				s += "_" + sanitize(typeShort(ta.At(i)))
			}
		}
		return s
	case *types.Alias:
		return typeShort(types.Unalias(t))
	case *types.Pointer:
		return "P" + typeShort(t.Elem())
	case *types.Slice:
		return "L" + typeShort(t.Elem())
	case *types.Basic:
		return t.Name()
	case *types.Array:
		return fmt.Sprintf("A%d%s", t.Len(), typeShort(t.Elem()))
	case *types.TypeParam:
		return "TP_" + t.Obj().Name()
	}
	return sanitize(types.TypeString(t, func(p *types.Package) string { return p.Name() }))
}

func (x *Xlat) typeID(t types.Type) int {
	k := types.TypeString(t, nil)
	if id, ok := x.typeIDs[k]; ok {
		return id
	}
	id := len(x.typeIDs) + 1
	x.typeIDs[k] = id
	return id
}

func (x *Xlat) declare(key, text string) {
	if x.declSeen[key] {
		return
	}
	x.declSeen[key] = true
	x.decls = append(x.decls, text)
}

// sortOf maps a Go type to an SMT sort.
func (x *Xlat) sortOf(t types.Type) string {
	if _, ok := x.intInfoOf(t); ok {
		if x.bvMode {
			ii, _ := x.intInfoOf(t)
			if !ii.math {
				return fmt.Sprintf("(_ BitVec %d)", ii.bits)
			}
		}
		return "Int"
	}
	switch u := t.Underlying().(type) {
	case *types.Basic:
		switch {
		case u.Info()&types.IsBoolean != 0:
			return "Bool"
		case u.Info()&types.IsString != 0:
			return "Str"
		case u.Kind() == types.Float64, u.Kind() == types.UntypedFloat:
			return "(_ FloatingPoint 11 53)"
		case u.Kind() == types.Float32:
			return "(_ FloatingPoint 8 24)"
		case u.Kind() == types.UnsafePointer, u.Kind() == types.UntypedNil:
			return "Int"
		}
	case *types.Pointer, *types.Chan, *types.Map, *types.Signature, *types.Interface:
		return "Int"
	case *types.Slice:
		return "Slice"
	case *types.Array:
		return "(Array Int " + x.sortOf(u.Elem()) + ")"
	case *types.Struct:
		return x.structSort(t, u)
	case *types.Tuple:
		return "Int"
	}
	if _, ok := t.(*types.TypeParam); ok {
		return "Int"
	}
	return "Int"
}

func (x *Xlat) structSort(t types.Type, st *types.Struct) string {
	name := "S_" + sanitize(typeShort(t))
	if _, ok := x.structSorts[name]; ok {
		return name
	}
	ss := &structSort{name: name, st: st}
	x.structSorts[name] = ss
	var fs []string
	for i := 0; i < st.NumFields(); i++ {
		f := st.Field(i)
		ss.fields = append(ss.fields, f)
		fs = append(fs, fmt.Sprintf("(%s_f%d %s)", name, i, x.sortOf(f.Type())))
	}
	if len(fs) == 0 {
		fs = append(fs, fmt.Sprintf("(%s_unit Int)", name))
	}
	x.declare(name, fmt.Sprintf("(declare-datatypes ((%s 0)) (((mk_%s %s))))", name, name, strings.Join(fs, " ")))
	return name
}

func (x *Xlat) structField(t types.Type, i int, v Term) Term {
	name := x.sortOf(t)
	return sx(fmt.Sprintf("%s_f%d", name, i), v)
}

func (x *Xlat) structUpdate(t types.Type, i int, v Term, nv Term) Term {
	st := t.Underlying().(*types.Struct)
	name := x.sortOf(t)
	parts := []string{"mk_" + name}
	for k := 0; k < st.NumFields(); k++ {
		if k == i {
			parts = append(parts, nv)
		} else {
			parts = append(parts, sx(fmt.Sprintf("%s_f%d", name, k), v))
		}
	}
	return sx(parts...)
}

// zero value of a type
func (x *Xlat) zero(t types.Type) Term {
	if ii, ok := x.intInfoOf(t); ok {
		if x.bvMode && !ii.math {
			return fmt.Sprintf("(_ bv0 %d)", ii.bits)
		}
		return "0"
	}
	switch u := t.Underlying().(type) {
	case *types.Basic:
		switch {
		case u.Info()&types.IsBoolean != 0:
			return "false"
		case u.Info()&types.IsString != 0:
			// written out (not the strempty macro): cvc5 wants a value inside constant arrays
			return "(mkstr ((as const (Array Int Int)) 0) 0)"
		case u.Kind() == types.Float64 || u.Kind() == types.UntypedFloat:
			return "(_ +zero 11 53)"
		case u.Kind() == types.Float32:
			return "(_ +zero 8 24)"
		}
		return "0"
	case *types.Slice:
		return "(mkslice 0 0 0 0)"
	case *types.Array:
		return sx(sx("as const", x.sortOf(t)), x.zero(u.Elem()))
	case *types.Struct:
		name := x.sortOf(t)
		parts := []string{"mk_" + name}
		for i := 0; i < u.NumFields(); i++ {
			parts = append(parts, x.zero(u.Field(i).Type()))
		}
		if u.NumFields() == 0 {
			parts = append(parts, "0")
		}
		return sx(parts...)
	}
	return "0"
}

// string constant as canonical Str
func strConst(s string) Term {
	arr := "zarr"
	for i := 0; i < len(s); i++ {
		arr = sx("store", arr, fmt.Sprint(i), fmt.Sprint(int(s[i])))
	}
	return sx("mkstr", arr, fmt.Sprint(len(s)))
}

func sortedKeys[V any](m map[string]V) []string {
	ks := make([]string, 0, len(m))
	for k := range m {
		ks = append(ks, k)
	}
	sort.Strings(ks)
	return ks
}

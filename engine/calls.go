package main

// Main-mode handling of stores, calls (contracts, externs, unknown), defers,
// builtins with effects, maps, channels.

import (
	"fmt"
	"go/token"
	"go/types"
	"strings"

	"golang.org/x/tools/go/ssa"
)

func (x *Exec) step(f *frame, in ssa.Instruction) {
	st := f.st
	if len(x.aliases) > 0 && st != nil {
		snap := x.aliasSnapshot(st)
		defer func() {
			if x.skipRecouple {
				x.skipRecouple = false
				return
			}
			x.recouple(st, snap, in)
		}()
	}
	switch in := in.(type) {
	case *ssa.Store:
		av := x.val(in.Addr)
		v := x.val(in.Val)
		if av.A == nil {
			x.safety(st, "nil", not(eq(av.T, "0")), in.Pos())
		}
		a := x.addrOf(av, in.Val.Type())
		if v.T == "" {
			if a.Kind == aCell && len(a.Path) == 0 {
				// local variable holding a symbolic address or closure: track structurally
				x.vals[cellAlias{a.Cell}] = v
				st.cells[a.Cell] = "0"
				return
			}
			x.abstract("store of interior pointer / closure to memory")
			v = Val{T: x.havocValue(st, in.Val.Type(), "esc")}
		}
		if v.Cl != nil && a.Kind == aCell && len(a.Path) == 0 {
			// local variable holding a closure: remember which one (as long as the cell keeps that value)
			x.vals[cellAlias{a.Cell}] = v
		}
		if a.Kind != aCell {
			x.critCheck(st, a, in.Pos())
			x.frameCheck(st, a, in.Pos())
		}
		if fa, ok := in.Addr.(*ssa.FieldAddr); ok && a.Kind == aField && v.T != "" {
			x.plainFieldGhosts(st, fa, a, v.T, in.Val.Type())
		}
		x.storeAddr(st, a, v.T)
		return
	case *ssa.UnOp:
		if in.Op == token.MUL {
			// load of a local holding a structural value
			if pv := x.val(in.X); pv.A != nil && pv.A.Kind == aCell && len(pv.A.Path) == 0 {
				if sv, ok := x.vals[cellAlias{pv.A.Cell}]; ok && (st.cells[pv.A.Cell] == "0" || sv.Cl != nil && sv.T != "" && st.cells[pv.A.Cell] == sv.T) {
					x.vals[in] = sv
					return
				}
			}
		}
		if in.Op == token.ARROW {
			x.chanRecv(f, in)
			return
		}
	case *ssa.Call:
		x.callStep(f, in)
		return
	case *ssa.Defer:
		x.deferred = append(x.deferred, in)
		var args []Val
		for _, a := range in.Call.Args {
			args = append(args, x.val(a))
		}
		x.vals[deferKey{in}] = Val{Tu: args, T: st.live}
		if !in.Call.IsInvoke() {
			x.vals[deferFn{in}] = x.val(in.Call.Value)
		}
		return
	case *ssa.RunDefers:
		for i := len(x.deferred) - 1; i >= 0; i-- {
			d := x.deferred[i]
			dv, ok := x.vals[deferKey{d}]
			if !ok {
				continue
			}
			// the defer statement must have executed on this path; conditional defers are
			// supported only when the deferring block dominates the return block
			if !d.Block().Dominates(in.Block()) {
				if !blockReaches(d.Block(), in.Block()) {
					continue // this return is on a path that never executed the defer statement
				}
				x.abstract("conditionally executed defer (treated as havoc)")
				x.havocHeapAll(st)
				continue
			}
			x.callWith(f, d, d.Common(), dv.Tu, true)
		}
		return
	case *ssa.Go:
		x.abstract("go statement (spawned goroutine not executed; interference only through monitors/shared cells)")
		return
	case *ssa.MapUpdate:
		x.mapUpdate(f, in)
		return
	case *ssa.MakeMap:
		ref := x.define(x.fresh("new"), "Int", sx("+", st.allocTop, "1"))
		st.allocTop = ref
		mt := in.Type().Underlying().(*types.Map)
		has, _, ln, hs, _ := x.mapComps(mt)
		h := x.heapGet(st, has, hs)
		st.heap[has] = x.define(x.fresh(has), hs, sx("store", h, ref, sx(sx("as const", "(Array "+x.X.sortOf(mt.Key())+" Bool)"), "false")))
		l := x.heapGet(st, ln, "(Array Int Int)")
		st.heap[ln] = x.define(x.fresh(ln), "(Array Int Int)", sx("store", l, ref, "0"))
		x.vals[in] = Val{T: ref}
		return
	case *ssa.MakeSlice:
		ref := x.define(x.fresh("new"), "Int", sx("+", st.allocTop, "1"))
		st.allocTop = ref
		et := in.Type().Underlying().(*types.Slice).Elem()
		ln := f.toInt(x.val(in.Len).T, in.Len.Type())
		cp := f.toInt(x.val(in.Cap).T, in.Cap.Type())
		x.safety(st, "makeslice", and(sx("<=", "0", ln), sx("<=", ln, cp)), in.Pos())
		if !isStruct(et) {
			c, srt := x.elemComp(et)
			h := x.heapGet(st, c, srt)
			st.heap[c] = x.define(x.fresh(c), srt, sx("store", h, ref, sx(sx("as const", "(Array Int "+x.X.sortOf(et)+")"), x.X.zero(et))))
		} else {
			x.abstract("make of slice of structs (elements not zero-initialised in the model)")
		}
		x.vals[in] = Val{T: x.define(x.valName(in), "Slice", sx("mkslice", ref, "0", ln, cp))}
		return
	case *ssa.MakeChan:
		ref := x.define(x.fresh("new"), "Int", sx("+", st.allocTop, "1"))
		st.allocTop = ref
		x.comp("Chan_len", "(Array Int Int)")
		x.comp("Chan_cap", "(Array Int Int)")
		x.comp("Chan_closed", "(Array Int Bool)")
		for _, kv := range [][2]string{{"Chan_len", "0"}, {"Chan_cap", f.toInt(x.val(in.Size).T, in.Size.Type())}} {
			h := x.heapGet(st, kv[0], "(Array Int Int)")
			st.heap[kv[0]] = x.define(x.fresh(kv[0]), "(Array Int Int)", sx("store", h, ref, kv[1]))
		}
		h := x.heapGet(st, "Chan_closed", "(Array Int Bool)")
		st.heap["Chan_closed"] = x.define(x.fresh("Chan_closed"), "(Array Int Bool)", sx("store", h, ref, "false"))
		x.vals[in] = Val{T: ref}
		return
	case *ssa.Send:
		x.chanSend(f, in)
		return
	case *ssa.Select:
		x.selectStmt(f, in)
		return
	case *ssa.Range:
		x.vals[in] = Val{T: x.val(in.X).T}
		if mt, ok := in.X.Type().Underlying().(*types.Map); ok {
			// no key produced yet
			ks := x.X.sortOf(mt.Key())
			vcn, vsort := "Ghost_vis_"+sanitize(ks), "(Array "+ks+" Bool)"
			x.comp(vcn, vsort)
			st.heap[vcn] = "((as const " + vsort + ") false)"
		}
		return
	case *ssa.Next:
		x.rangeNext(f, in)
		return
	}
	if f.evalCommon(in) {
		return
	}
	x.abstract(fmt.Sprintf("instruction %T", in))
	if v, ok := in.(ssa.Value); ok {
		if _, isTuple := v.Type().(*types.Tuple); isTuple {
			tu := v.Type().(*types.Tuple)
			var vs []Val
			for i := 0; i < tu.Len(); i++ {
				vs = append(vs, Val{T: x.havocValue(st, tu.At(i).Type(), "unk")})
			}
			x.vals[v] = Val{Tu: vs}
		} else {
			x.vals[v] = Val{T: x.havocValue(st, v.Type(), "unk")}
		}
	}
}

// keys for auxiliary entries in x.vals
type cellAlias struct{ a *ssa.Alloc }

func (cellAlias) Name() string                  { return "cellalias" }
func (cellAlias) String() string                { return "cellalias" }
func (cellAlias) Type() types.Type              { return nil }
func (cellAlias) Parent() *ssa.Function         { return nil }
func (cellAlias) Referrers() *[]ssa.Instruction { return nil }
func (cellAlias) Pos() token.Pos                { return token.NoPos }

type deferKey struct{ d *ssa.Defer }

func (deferKey) Name() string                  { return "deferkey" }
func (deferKey) String() string                { return "deferkey" }
func (deferKey) Type() types.Type              { return nil }
func (deferKey) Parent() *ssa.Function         { return nil }
func (deferKey) Referrers() *[]ssa.Instruction { return nil }
func (deferKey) Pos() token.Pos                { return token.NoPos }

type deferFn struct{ d *ssa.Defer }

func (deferFn) Name() string                  { return "deferfn" }
func (deferFn) String() string                { return "deferfn" }
func (deferFn) Type() types.Type              { return nil }
func (deferFn) Parent() *ssa.Function         { return nil }
func (deferFn) Referrers() *[]ssa.Instruction { return nil }
func (deferFn) Pos() token.Pos                { return token.NoPos }

// ---------------------------------------------------------------------------
// frame conditions

type modEntry struct {
	comp string // heap component, "" = all components of object
	ref  Term
	all  bool // "*"
	obj  bool // every field of object ref
	elem bool // every element of slice base ref
	typ  types.Type // obj: struct type of the object; elem: element type of the slice (nil if unknown)
	mapT *types.Map // elem entry `m[*]` for a map m: every entry of that map (ref is the map itself)
}

func (x *Exec) frameCheck(st *State, a *Addr, pos token.Pos) {
	if x.fc == nil || !x.fc.HasMod {
		return
	}
	ents := x.modEntries(x.fc, x.fn, nil, x.entry)
	var ok []Term
	ref := a.Ref
	if a.Kind == aGlobal {
		ref = "0"
	}
	if ref != "" {
		ok = append(ok, sx(">", ref, x.entry.allocTop))
	}
	for _, e := range ents {
		switch {
		case e.all:
			return
		case e.obj:
			ok = append(ok, eq(ref, e.ref))
		case e.elem && e.mapT != nil:
			// entries of a map are not addressable: no ordinary store is covered by this entry
		case e.elem:
			if a.Kind == aElem {
				ok = append(ok, eq(ref, e.ref))
			}
			if (a.Kind == aObj || a.Kind == aField) && (e.typ == nil || isStruct(e.typ)) {
				// elements that are struct objects (addressed by elemref); a slice of scalars has none
				ok = append(ok, eq(sx("elemref_base", ref), e.ref))
			}
		case e.comp == a.Comp:
			ok = append(ok, eq(ref, e.ref))
		case a.Kind == aObj:
			// whole-struct store: needs an obj entry
		}
	}
	x.oblige(st, "frame", fmt.Sprintf("frame:%d", x.ordinal("frame")), or(ok...), pos, false, x.props())
}

// modEntries evaluates the modifies clause of fc (a contract of target) with
// the given argument binding in state st.
func (x *Exec) modEntries(fc *FuncContract, target *ssa.Function, args map[string]dual, st *State) []modEntry {
	var out []modEntry
	for i, m := range fc.Modifies {
		if m == "*" {
			out = append(out, modEntry{all: true})
			continue
		}
		if m == "nothing" {
			continue
		}
		c := fc.modClause(i)
		if c == nil || c.FnSym == "" {
			x.errorf("modifies entry %q of %s has no base function", m, fc.Key)
			out = append(out, modEntry{all: true})
			continue
		}
		var d dual
		if target == x.fn && args == nil {
			d = x.evalClauseDual(c, target, st, st, nil, true, nil)
		} else {
			d = x.evalClauseDual(c, target, st, st, nil, true, args)
		}
		base := d[0].T
		cf := x.clauseFn(c, pkgPathOf(target))
		var bt types.Type
		if cf != nil {
			bt = cf.Signature.Results().At(0).Type()
		}
		switch {
		case strings.HasSuffix(m, ".*"):
			e := modEntry{obj: true, ref: base}
			if bt != nil && isStruct(deref(bt)) {
				e.typ = deref(bt)
			}
			out = append(out, e)
		case strings.HasSuffix(m, "[*]") && bt != nil && isMapType(bt):
			out = append(out, modEntry{elem: true, ref: base, mapT: bt.Underlying().(*types.Map)})
		case strings.HasSuffix(m, "[*]"):
			e := modEntry{elem: true, ref: sx("sbase", base)}
			if bt != nil {
				if sl, ok := bt.Underlying().(*types.Slice); ok {
					e.typ = sl.Elem()
				}
			}
			out = append(out, e)
		default:
			// base.field
			fld := m[strings.LastIndex(m, ".")+1:]
			stt := deref(bt)
			if s, ok := stt.Underlying().(*types.Struct); ok {
				found := false
				for k := 0; k < s.NumFields(); k++ {
					if s.Field(k).Name() == fld {
						found = true
						if isStruct(s.Field(k).Type()) {
							out = append(out, modEntry{obj: true, ref: x.subRef(stt, k, base), typ: s.Field(k).Type()})
						} else {
							cn, srt, _ := x.fieldComp(stt, k)
							x.comp(cn, srt)
							out = append(out, modEntry{comp: cn, ref: base})
						}
					}
				}
				if !found {
					x.errorf("modifies %q: no field %s", m, fld)
				}
			} else {
				x.errorf("modifies %q: base is not a struct pointer", m)
			}
		}
	}
	return out
}

// modComps: the heap components a contract's modifies clause can touch (syntactic,
// for loop heads); all=true when that cannot be bounded.
func (x *Exec) modComps(fc *FuncContract, target *ssa.Function) (comps []string, all bool) {
	for i, m := range fc.Modifies {
		if m == "*" {
			return nil, true
		}
		if m == "nothing" {
			continue
		}
		c := fc.modClause(i)
		if c == nil || c.FnSym == "" {
			return nil, true
		}
		cf := x.clauseFn(c, pkgPathOf(target))
		if cf == nil {
			return nil, true
		}
		bt := cf.Signature.Results().At(0).Type()
		switch {
		case strings.HasSuffix(m, ".*"):
			if !isStruct(deref(bt)) {
				return nil, true
			}
			comps = append(comps, x.allFieldComps(deref(bt))...)
		case strings.HasSuffix(m, "[*]"):
			sl, ok := bt.Underlying().(*types.Slice)
			if !ok || isStruct(sl.Elem()) {
				return nil, true
			}
			cn, srt := x.elemComp(sl.Elem())
			x.comp(cn, srt)
			comps = append(comps, cn)
		default:
			fld := m[strings.LastIndex(m, ".")+1:]
			stt := deref(bt)
			s, ok := stt.Underlying().(*types.Struct)
			if !ok {
				return nil, true
			}
			found := false
			for k := 0; k < s.NumFields(); k++ {
				if s.Field(k).Name() != fld {
					continue
				}
				found = true
				if isStruct(s.Field(k).Type()) {
					if ac := x.atomicCompOf(s.Field(k).Type()); ac != "" {
						comps = append(comps, ac)
					}
					comps = append(comps, x.allFieldComps(s.Field(k).Type())...)
				} else {
					cn, srt, _ := x.fieldComp(stt, k)
					x.comp(cn, srt)
					comps = append(comps, cn)
				}
			}
			if !found {
				return nil, true
			}
		}
	}
	return comps, false
}

func (fc *FuncContract) modClause(i int) *Clause {
	if fc.modClauses == nil {
		return nil
	}
	return fc.modClauses[i]
}

// havocMod havocs what a callee contract may modify.
func (x *Exec) havocMod(st *State, ents []modEntry) {
	for _, e := range ents {
		switch {
		case e.all:
			x.havocHeapAll(st)
			return
		case e.obj && e.typ != nil && x.atomicCompOf(e.typ) != "":
			// a typed atomic (sync/atomic.Int32 ...): its value lives in the A_<Type> component
			cn := x.atomicCompOf(e.typ)
			srt := x.comps[cn]
			h := x.heapGet(st, cn, srt)
			nv := x.havocConst("mod_"+cn, elemSortOfArray(srt))
			st.heap[cn] = x.define(x.fresh(cn), srt, sx("store", h, e.ref, nv))
		case e.obj && e.typ != nil && isStruct(e.typ):
			// every field of that object may change: the field components of its struct type
			// (nested structs included) are havocked as a whole — an over-approximation of
			// "at this object only", still far from the whole heap
			for _, cn := range x.allFieldComps(e.typ) {
				st.heap[cn] = x.havocConst("mod_"+cn, x.comps[cn])
			}
		case e.elem && e.mapT != nil:
			// every entry of that one map may change (key set, values, length); other maps of the type keep theirs
			has, val, ln, hs, vs := x.mapComps(e.mapT)
			ks, es := x.X.sortOf(e.mapT.Key()), x.X.sortOf(e.mapT.Elem())
			st.heap[has] = x.define(x.fresh(has), hs, sx("store", x.heapGet(st, has, hs), e.ref, x.havocConst("mod_has", "(Array "+ks+" Bool)")))
			st.heap[val] = x.define(x.fresh(val), vs, sx("store", x.heapGet(st, val, vs), e.ref, x.havocConst("mod_val", "(Array "+ks+" "+es+")")))
			nl := x.havocConst("mod_len", "Int")
			x.assume(st, and(sx("<=", "0", nl), sx("<=", nl, "281474976710656")))
			st.heap[ln] = x.define(x.fresh(ln), "(Array Int Int)", sx("store", x.heapGet(st, ln, "(Array Int Int)"), e.ref, nl))
		case e.elem && e.typ != nil && !isStruct(e.typ):
			cn, srt := x.elemComp(e.typ)
			x.comp(cn, srt)
			st.heap[cn] = x.havocConst("mod_"+cn, srt)
		case e.obj, e.elem:
			// type unknown: every component may change
			x.havocHeapAll(st)
			return
		default:
			srt := x.comps[e.comp]
			h := x.heapGet(st, e.comp, srt)
			es := elemSortOfArray(srt)
			nv := x.havocConst("mod_"+e.comp, es)
			st.heap[e.comp] = x.define(x.fresh(e.comp), srt, sx("store", h, e.ref, nv))
		}
	}
}

func elemSortOfArray(srt string) string {
	// "(Array Int X)" -> X
	s := strings.TrimPrefix(srt, "(Array Int ")
	return strings.TrimSuffix(s, ")")
}

// ---------------------------------------------------------------------------
// calls

func (x *Exec) call(f *frame, in ssa.Value, c *ssa.CallCommon) Val {
	var args []Val
	for _, a := range c.Args {
		args = append(args, x.val(a))
	}
	return x.callWith(f, in.(ssa.Instruction), c, args, false)
}

func (x *Exec) resultVal(st *State, sig *types.Signature, prefix string) Val {
	res := sig.Results()
	switch res.Len() {
	case 0:
		return Val{}
	case 1:
		return Val{T: x.havocValue(st, res.At(0).Type(), prefix)}
	}
	var tu []Val
	for i := 0; i < res.Len(); i++ {
		tu = append(tu, Val{T: x.havocValue(st, res.At(i).Type(), prefix)})
	}
	return Val{Tu: tu}
}

func (x *Exec) callWith(f *frame, in ssa.Instruction, c *ssa.CallCommon, args []Val, deferred bool) Val {
	st := f.st
	if b, ok := c.Value.(*ssa.Builtin); ok {
		if !strings.HasPrefix(b.Name(), "ssa:") {
			x.siteAssertions(st, in, b.Name(), args)
		}
		return x.builtinCall(f, b, in, c, args)
	}
	if c.IsInvoke() {
		x.curRecv = x.val(c.Value)
		x.siteAssertions(st, in, c.Method.Name(), args)
		x.curRecv = Val{}
		if v, ok := x.externInvoke(f, in, c, args); ok {
			return v
		}
		x.abstract("interface method call (havoc): " + c.Method.FullName())
		x.unknownEffect(st, in.Pos())
		return x.resultVal(st, c.Signature(), "inv")
	}
	if !deferred {
		// seq(yield): a range-over-func loop whose body is under contract
		if v, ok := x.rangeFuncCall(f, in, c, args); ok {
			return v
		}
	}
	callee := c.StaticCallee()
	var fnVal Val
	if deferred {
		if d, ok := in.(*ssa.Defer); ok {
			fnVal = x.vals[deferFn{d}]
		}
	} else {
		fnVal = x.val(c.Value)
	}
	var fvs []Val
	if callee == nil && fnVal.Cl != nil {
		callee = fnVal.Cl.Fn
		fvs = fnVal.Cl.Bindings
	} else if fnVal.Cl != nil {
		fvs = fnVal.Cl.Bindings
	}
	if callee == nil {
		if ld, ok := c.Value.(*ssa.UnOp); ok {
			if g, ok := ld.X.(*ssa.Global); ok {
				// call through a package-level function variable: the site is named after the variable
				x.siteAssertions(st, in, g.Name(), args)
			}
			if fv, ok := ld.X.(*ssa.FreeVar); ok {
				// call through a captured function-valued variable of the enclosing function
				x.siteAssertions(st, in, fv.Name(), args)
			}
			if al, ok := ld.X.(*ssa.Alloc); ok && al.Comment != "" {
				// call through a function-valued parameter or local: the site is named after it
				x.siteAssertions(st, in, al.Comment, args)
			}
			if fa, ok := ld.X.(*ssa.FieldAddr); ok {
				// call through a function-valued struct field: the site is named after the field
				x.siteAssertions(st, in, deref(fa.X.Type()).Underlying().(*types.Struct).Field(fa.Field).Name(), args)
			}
		}
		if v, ok := x.externFuncValue(f, in, c, args); ok {
			return v
		}
		if v, ok := x.rangeFuncCall(f, in, c, args); ok {
			return v
		}
		x.abstract("call through function value (havoc) at " + x.shortPos(in.Pos()))
		x.unknownEffect(st, in.Pos())
		return x.resultVal(st, c.Signature(), "dyn")
	}
	key := funcKey(callee)
	site := x.siteAssertions(st, in, baseName(callee), args)
	if fc := x.L.FuncCon[key]; fc != nil && !fc.Inline {
		return x.callContract(f, in, callee, fc, args, site)
	}
	if v, ok := x.externCall(f, in, callee, c, args); ok {
		return v
	}
	// spec helpers callable from lemma bodies
	if x.isSpecHelper(callee) || (x.L.FuncCon[key] != nil && x.L.FuncCon[key].Inline) || len(fvs) > 0 && x.inlineOK(callee) {
		var dargs []dual
		for _, a := range args {
			dargs = append(dargs, dualOf(a))
		}
		if x.isSpecHelper(callee) {
			d := x.evalPure(callee, dargs, fvs, [2]memView{stateView{x, st}, stateView{x, x.entry}}, 1)
			return d[0]
		}
	}
	if x.inlineable(callee) {
		return x.inlineCall(f, callee, args, fvs)
	}
	x.abstract("call without contract (havoc): " + callee.String())
	x.unknownEffect(st, in.Pos())
	return x.resultVal(st, callee.Signature, "call")
}

func (x *Exec) inlineOK(fn *ssa.Function) bool { return false }

// unknownEffect: an unmodelled call may change any heap location.
func (x *Exec) unknownEffect(st *State, pos token.Pos) {
	if x.fc != nil && x.fc.HasMod {
		all := false
		for _, m := range x.fc.Modifies {
			if m == "*" {
				all = true
			}
		}
		if !all {
			x.oblige(st, "frame", fmt.Sprintf("frame:%d", x.ordinal("frame")), "false", pos, false, x.props())
		}
	}
	x.havocHeapAll(st)
	x.havocTop(st)
}

func (x *Exec) havocTop(st *State) {
	c := x.havocConst("alloc", "Int")
	x.assume(st, sx(">=", c, st.allocTop))
	st.allocTop = c
}

func (x *Exec) bindArgs(callee *ssa.Function, args []Val) map[string]dual {
	m := map[string]dual{}
	for i, p := range callee.Params {
		if i < len(args) {
			m[p.Name()] = dualOf(args[i])
		}
	}
	return m
}

func (x *Exec) callContract(f *frame, in ssa.Instruction, callee *ssa.Function, fc *FuncContract, args []Val, site string) Val {
	st := f.st
	bind := x.bindArgs(callee, args)
	pre := st.clone()
	for j, c := range fc.Requires {
		t := x.evalClauseDual(c, callee, st, st, nil, true, bind)[0].T
		o := x.oblige(st, "call-pre", fmt.Sprintf("call-pre:%s:%d", site, j+1), t, in.Pos(), false, x.props())
		o.Clause, o.Line = c.Text, c.Line
	}
	x.assumed["contract of "+funcKey(callee)+" (checked separately)"] = false
	if fc.Trusted {
		x.assumed["TRUSTED contract of "+funcKey(callee)] = true
	}
	// effects
	if fc.Opts["yields"] != "" || (!fc.Trusted && !fc.Pure && bodyBlocks(callee)) {
		// the callee blocks: other goroutines run meanwhile (monitors held here keep their fields)
		x.abstract("call of a function that may block (yield point: heap havocked except fields of held monitors)")
		x.yieldEffect(st, in)
		pre = st.clone()
	}
	if fc.HasMod {
		ents := x.modEntries(fc, callee, bind, pre)
		// caller's own frame
		if x.fc != nil && x.fc.HasMod {
			x.frameCheckCall(st, ents, in.Pos())
		}
		x.havocMod(st, ents)
		x.havocTop(st)
	} else if !fc.Pure {
		// no modifies clause: the callee may allocate but changes no existing location
		x.havocTop(st)
	}
	res := x.resultVal(st, callee.Signature, "res_"+sanitize(callee.Name()))
	if fc.Pure {
		// a pure function of value arguments: its result is the application of an
		// uninterpreted function symbol, so that two calls with equal arguments agree
		if pf, ok := x.pureFuncApp(callee, args); ok {
			x.assume(st, eq(res.T, pf))
		}
	}
	var results []Val
	if len(res.Tu) > 0 {
		results = res.Tu
	} else if res.T != "" {
		results = []Val{res}
	}
	for _, c := range fc.Ensures {
		var t Term
		if fc.Lemma {
			continue
		}
		if pathGhostRe.MatchString(c.Text) {
			// ncalls/lastret/... count what happened on the path INSIDE the callee; in the
			// caller the same ghosts describe the caller's own path, so such a postcondition
			// says nothing a caller may assume (it is still proved for the callee itself)
			continue
		}
		t = x.evalClauseDualOld(c, callee, st, pre, results, bind)
		x.assume(st, t)
	}
	if fc.Lemma {
		for k := range fc.Ensures {
			if k < len(results) {
				x.assume(st, results[k].T)
			}
		}
	}
	return res
}

func (x *Exec) evalClauseDualOld(c *Clause, callee *ssa.Function, cur, old *State, results []Val, bind map[string]dual) Term {
	return x.evalClauseDual(c, callee, cur, old, results, true, bind)[0].T
}

func (x *Exec) frameCheckCall(st *State, ents []modEntry, pos token.Pos) {
	mine := x.modEntries(x.fc, x.fn, nil, x.entry)
	for _, m := range mine {
		if m.all {
			return
		}
	}
	for _, e := range ents {
		var ok []Term
		if e.all {
			ok = append(ok, "false")
		} else {
			ok = append(ok, sx(">", e.ref, x.entry.allocTop))
			for _, m := range mine {
				if m.obj && eqMode(e, m) || m.comp == e.comp && !m.obj && !m.elem && !e.obj && !e.elem {
					ok = append(ok, eq(e.ref, m.ref))
				}
				if m.obj && !e.obj && !e.elem {
					ok = append(ok, eq(e.ref, m.ref))
				}
				if m.elem && e.elem && (m.mapT == nil) != (e.mapT == nil) {
					continue
				}
				if m.elem && e.elem {
					// the callee may write the elements of a slice whose elements the caller may write
					ok = append(ok, eq(e.ref, m.ref))
				}
			}
		}
		x.oblige(st, "frame", fmt.Sprintf("frame:%d", x.ordinal("frame")), or(ok...), pos, false, x.props())
	}
}

func eqMode(a, b modEntry) bool { return a.obj == b.obj && a.elem == b.elem }

// ---------------------------------------------------------------------------
// builtins with effects

func (x *Exec) builtinCall(f *frame, b *ssa.Builtin, in ssa.Instruction, c *ssa.CallCommon, args []Val) Val {
	st := f.st
	switch b.Name() {
	case "len", "cap", "min", "max", "ssa:deferstack":
		v := in.(ssa.Value)
		r := f.builtinPure(b, v, args)
		if (b.Name() == "len" || b.Name() == "cap") && !x.X.bvMode {
			// lengths and capacities are non-negative and bounded by the address space
			ri := f.toInt(r, v.Type())
			x.assume(st, and(sx("<=", "0", ri), sx("<=", ri, "281474976710656")))
		}
		return Val{T: r}
	case "append":
		return x.appendCall(f, in.(ssa.Value), c, args)
	case "copy":
		return x.copyCall(f, in.(ssa.Value), c, args)
	case "delete":
		x.frameCheckMap(st, args[0].T, in.Pos())
		mt := c.Args[0].Type().Underlying().(*types.Map)
		has, _, ln, hs, _ := x.mapComps(mt)
		h := x.heapGet(st, has, hs)
		was := sx("select", sx("select", h, args[0].T), args[1].T)
		st.heap[has] = x.define(x.fresh(has), hs, sx("store", h, args[0].T, sx("store", sx("select", h, args[0].T), args[1].T, "false")))
		l := x.heapGet(st, ln, "(Array Int Int)")
		st.heap[ln] = x.define(x.fresh(ln), "(Array Int Int)", sx("store", l, args[0].T, ite(and(not(eq(args[0].T, "0")), was), sx("-", sx("select", l, args[0].T), "1"), sx("select", l, args[0].T))))
		return Val{}
	case "close":
		x.comp("Chan_closed", "(Array Int Bool)")
		h := x.heapGet(st, "Chan_closed", "(Array Int Bool)")
		x.safety(st, "chan", and(not(eq(args[0].T, "0")), not(sx("select", h, args[0].T))), in.Pos())
		st.heap["Chan_closed"] = x.define(x.fresh("Chan_closed"), "(Array Int Bool)", sx("store", h, args[0].T, "true"))
		return Val{}
	case "panic":
		if x.fc == nil || x.fc.Opts["maypanic"] == "" {
			x.safety(st, "panic", "false", in.Pos())
		} else {
			x.assume(st, "false")
		}
		return Val{}
	case "print", "println":
		return Val{}
	case "clear":
		// clear(slice) zeroes the elements, clear(map) empties the map: only the components
		// that model that element type / map type change (their new contents are not tracked)
		switch u := c.Args[0].Type().Underlying().(type) {
		case *types.Slice:
			if !isStruct(u.Elem()) {
				cn, srt := x.elemComp(u.Elem())
				x.comp(cn, srt)
				st.heap[cn] = x.havocConst(cn+"@clear", srt)
				x.abstract("clear(slice): element contents not tracked afterwards")
				return Val{}
			}
		case *types.Map:
			has, val, ln, hs, vs := x.mapComps(u)
			st.heap[has] = x.havocConst(has+"@clear", hs)
			st.heap[val] = x.havocConst(val+"@clear", vs)
			st.heap[ln] = x.havocConst(ln+"@clear", "(Array Int Int)")
			x.abstract("clear(map): contents not tracked afterwards")
			return Val{}
		}
		x.abstract("clear builtin")
		x.havocHeapAll(st)
		return Val{}
	case "ssa:wrapnilchk":
		x.safety(st, "nil", not(eq(args[0].T, "0")), in.Pos())
		return args[0]
	}
	x.abstract("builtin " + b.Name())
	if v, ok := in.(ssa.Value); ok && v.Type() != nil {
		return Val{T: x.havocValue(st, v.Type(), "bi")}
	}
	return Val{}
}

func (x *Exec) appendCall(f *frame, in ssa.Value, c *ssa.CallCommon, args []Val) Val {
	st := f.st
	sl := in.Type().Underlying().(*types.Slice)
	et := sl.Elem()
	s, a := args[0].T, args[1].T
	if isString(c.Args[1].Type()) {
		x.abstract("append of string to []byte")
		return Val{T: x.havocValue(st, in.Type(), "app")}
	}
	if isStruct(et) {
		// elements are objects addressed by elemref: only the field components of the element
		// type can change; length and freshness of a reallocated backing store are kept
		x.abstract("append on slice of structs (element contents havocked, length exact)")
		for _, cn := range x.allFieldComps(et) {
			st.heap[cn] = x.havocConst(cn, x.comps[cn])
		}
		newRef := x.define(x.fresh("new"), "Int", sx("+", st.allocTop, "1"))
		st.allocTop = newRef
		res := x.havocValue(st, in.Type(), "app")
		x.assume(st, eq(sx("sllen", res), sx("+", sx("sllen", s), sx("sllen", a))))
		x.assume(st, or(eq(sx("sbase", res), sx("sbase", s)), eq(sx("sbase", res), newRef)))
		return Val{T: res}
	}
	cn, srt := x.elemComp(et)
	h := x.heapGet(st, cn, srt)
	if sl1, ok := c.Args[1].(*ssa.Slice); ok && sl1.Low == nil && sl1.High == nil {
		if al, ok := sl1.X.(*ssa.Alloc); ok {
			if arr, ok := deref(al.Type()).Underlying().(*types.Array); ok && arr.Len() == 1 {
				return x.appendOne(f, in, args, et, cn, srt, h)
			}
		}
	}
	n := sx("sllen", a)
	ln := sx("sllen", s)
	fits := sx("<=", sx("+", ln, n), sx("scap", s))
	newRef := x.define(x.fresh("new"), "Int", sx("+", st.allocTop, "1"))
	st.allocTop = newRef
	res := x.havocConst("app", "Slice")
	x.assume(st, sx("sliceok", res))
	x.assume(st, eq(sx("sllen", res), sx("+", ln, n)))
	x.assume(st, ite(fits,
		and(eq(sx("sbase", res), sx("sbase", s)), eq(sx("soff", res), sx("soff", s)), eq(sx("scap", res), sx("scap", s))),
		and(eq(sx("sbase", res), newRef), eq(sx("soff", res), "0"), sx(">=", sx("scap", res), sx("+", ln, n)))))
	es := x.X.sortOf(et)
	arr := x.havocConst("apparr", "(Array Int "+es+")")
	oldArr := sx("select", h, sx("sbase", s))
	argArr := sx("select", h, sx("sbase", a))
	q := x.fresh("j")
	// elements of the result
	inPlace := fmt.Sprintf("(forall ((%s Int)) (! (= (select %s %s) (ite (and (<= (+ (soff %s) %s) %s) (< %s (+ (soff %s) %s %s))) (select %s (+ (soff %s) (- %s (+ (soff %s) %s)))) (select %s %s))) :pattern ((select %s %s))))",
		q, arr, q, s, ln, q, q, s, ln, n, argArr, a, q, s, ln, oldArr, q, arr, q)
	realloc := fmt.Sprintf("(forall ((%s Int)) (! (=> (and (<= 0 %s) (< %s (+ %s %s))) (= (select %s %s) (ite (< %s %s) (select %s (+ (soff %s) %s)) (select %s (+ (soff %s) (- %s %s)))))) :pattern ((select %s %s))))",
		q, q, q, ln, n, arr, q, q, ln, oldArr, s, q, argArr, a, q, ln, arr, q)
	x.assume(st, ite(fits, inPlace, realloc))
	st.heap[cn] = x.define(x.fresh(cn), srt, sx("store", h, sx("sbase", res), arr))
	if x.fc != nil && x.fc.HasMod {
		// in-place append writes beyond len of the old backing array
		x.frameCheck(st, &Addr{Kind: aElem, Comp: cn, Ref: ite(fits, sx("sbase", s), newRef)}, in.Pos())
	}
	return Val{T: res}
}

func (x *Exec) copyCall(f *frame, in ssa.Value, c *ssa.CallCommon, args []Val) Val {
	st := f.st
	dst, src := args[0].T, args[1].T
	dt := c.Args[0].Type().Underlying().(*types.Slice)
	et := dt.Elem()
	if isStruct(et) {
		x.abstract("copy on slice of structs (havoc)")
		x.havocHeapAll(st)
		return Val{T: x.havocValue(st, in.Type(), "copy")}
	}
	cn, srt := x.elemComp(et)
	h := x.heapGet(st, cn, srt)
	var srcLen, srcAt Term
	q := x.fresh("j")
	if isString(c.Args[1].Type()) {
		srcLen = sx("slen", src)
		srcAt = fmt.Sprintf("(select (sdata %s) (- %s (soff %s)))", src, q, dst)
	} else {
		srcLen = sx("sllen", src)
		srcAt = fmt.Sprintf("(select (select %s (sbase %s)) (+ (soff %s) (- %s (soff %s))))", h, src, src, q, dst)
	}
	n := x.define(x.fresh("ncopy"), "Int", sx("imin", sx("sllen", dst), srcLen))
	es := x.X.sortOf(et)
	arr := x.havocConst("cparr", "(Array Int "+es+")")
	oldArr := sx("select", h, sx("sbase", dst))
	x.assume(st, fmt.Sprintf("(forall ((%s Int)) (! (= (select %s %s) (ite (and (<= (soff %s) %s) (< %s (+ (soff %s) %s))) %s (select %s %s))) :pattern ((select %s %s))))",
		q, arr, q, dst, q, q, dst, n, srcAt, oldArr, q, arr, q))
	if x.fc != nil && x.fc.HasMod {
		x.frameCheck(st, &Addr{Kind: aElem, Comp: cn, Ref: sx("sbase", dst)}, in.Pos())
	}
	st.heap[cn] = x.define(x.fresh(cn), srt, sx("store", h, sx("sbase", dst), arr))
	return Val{T: f.fromInt(n, in.Type())}
}

func (x *Exec) mapUpdate(f *frame, in *ssa.MapUpdate) {
	st := f.st
	mt := in.Map.Type().Underlying().(*types.Map)
	m, k, v := x.val(in.Map), x.val(in.Key), x.val(in.Value)
	x.safety(st, "nilmap", not(eq(m.T, "0")), in.Pos())
	x.frameCheckMap(st, m.T, in.Pos())
	has, val, ln, hs, vs := x.mapComps(mt)
	h := x.heapGet(st, has, hs)
	was := sx("select", sx("select", h, m.T), k.T)
	l := x.heapGet(st, ln, "(Array Int Int)")
	st.heap[ln] = x.define(x.fresh(ln), "(Array Int Int)", sx("store", l, m.T, ite(was, sx("select", l, m.T), sx("+", sx("select", l, m.T), "1"))))
	st.heap[has] = x.define(x.fresh(has), hs, sx("store", h, m.T, sx("store", sx("select", h, m.T), k.T, "true")))
	hv := x.heapGet(st, val, vs)
	vt := v.T
	if vt == "" {
		x.abstract("map value is interior pointer")
		vt = x.havocValue(st, mt.Elem(), "mv")
	}
	st.heap[val] = x.define(x.fresh(val), vs, sx("store", hv, m.T, sx("store", sx("select", hv, m.T), k.T, vt)))
}

func (x *Exec) rangeNext(f *frame, in *ssa.Next) {
	st := f.st
	tu := in.Type().(*types.Tuple)
	ok := x.havocConst("rng_ok", "Bool")
	var vs []Val
	vs = append(vs, Val{T: ok})
	rng, _ := in.Iter.(*ssa.Range)
	for i := 1; i < tu.Len(); i++ {
		t := tu.At(i).Type()
		if b, isb := t.(*types.Basic); isb && b.Kind() == types.Invalid {
			vs = append(vs, Val{T: "0"})
			continue
		}
		vs = append(vs, Val{T: x.havocValue(st, t, "rng")})
	}
	if rng != nil && !in.IsString {
		if mt, isMap := rng.X.Type().Underlying().(*types.Map); isMap && len(vs) == 3 {
			has, val, _, hs, vsrt := x.mapComps(mt)
			m := x.val(rng.X).T
			h := x.heapGet(st, has, hs)
			hv := x.heapGet(st, val, vsrt)
			tk, tv := tu.At(1).Type(), tu.At(2).Type()
			var facts []Term
			// the key of this iteration (a ghost when the loop does not bind it)
			key := vs[1].T
			if b, isb := tk.(*types.Basic); isb && b.Kind() == types.Invalid {
				key = x.havocValue(st, mt.Key(), "rngkey")
			}
			facts = append(facts, sx("select", sx("select", h, m), key))
			if b2, isb2 := tv.(*types.Basic); !(isb2 && b2.Kind() == types.Invalid) {
				facts = append(facts, eq(vs[2].T, sx("select", sx("select", hv, m), key)))
			}
			x.assume(st, implies(ok, and(append(facts, not(eq(m, "0")))...)))
			// visited(k): the keys this range loop has produced so far. Each key is produced at
			// most once; when the loop ends normally and its body never adds to a map of this
			// type, every key (still) in the map has been produced.
			ks := x.X.sortOf(mt.Key())
			vcn, vsort := "Ghost_vis_"+sanitize(ks), "(Array "+ks+" Bool)"
			x.comp(vcn, vsort)
			vis := x.heapGet(st, vcn, vsort)
			x.assume(st, implies(ok, not(sx("select", vis, key))))
			st.heap[vcn] = x.define(x.fresh(vcn), vsort, ite(ok, sx("store", vis, key, "true"), vis))
			if li := x.loopOfInstr(in); li != nil && !x.loopAddsToMap(li, mt) {
				kq := x.fresh("vk")
				x.assume(st, implies(not(ok), "(forall (("+kq+" "+ks+")) (! (=> (select (select "+h+" "+m+") "+kq+") (select "+vis+" "+kq+")) :pattern ((select "+vis+" "+kq+")) :pattern ((select (select "+h+" "+m+") "+kq+"))))"))
				x.assumed["range over a map produces every key that is in the map when the loop ends (Go spec; used only when the loop body adds nothing to maps of that type)"] = true
			}
		}
	}
	x.vals[in] = Val{Tu: vs}
}

// ---------------------------------------------------------------------------
// channels (ghost length / closed flag only)

func (x *Exec) chanRecv(f *frame, in *ssa.UnOp) {
	st := f.st
	x.abstract("channel receive (yield point: heap havocked)")
	x.yieldEffect(st, in)
	et := in.X.Type().Underlying().(*types.Chan).Elem()
	v := Val{T: x.havocValue(st, et, "recv")}
	if in.CommaOk {
		x.vals[in] = Val{Tu: []Val{v, {T: x.havocConst("recvok", "Bool")}}}
	} else {
		x.vals[in] = v
	}
}

func (x *Exec) chanSend(f *frame, in *ssa.Send) {
	st := f.st
	ch := x.val(in.Chan).T
	x.comp("Chan_closed", "(Array Int Bool)")
	h := x.heapGet(st, "Chan_closed", "(Array Int Bool)")
	x.safety(st, "chan", not(sx("select", h, ch)), in.Pos())
	x.chanBounds(st, ch)
	x.siteAssertions(st, in, "chansend", []Val{x.val(in.Chan), x.val(in.X)})
	x.abstract("blocking channel send (yield point: heap havocked)")
	x.yieldEffect(st, in)
}

func (x *Exec) selectStmt(f *frame, in *ssa.Select) {
	st := f.st
	// result: (index int, recvOk bool, r_0 T_0, ... r_n-1 T_n-1)
	tu := in.Type().(*types.Tuple)
	n := len(in.States)
	idx := x.havocConst("sel_idx", "Int")
	lo := "0"
	if !in.Blocking {
		lo = "(- 1)"
	}
	x.assume(st, and(sx("<=", lo, idx), sx("<", idx, fmt.Sprint(n))))
	x.comp("Chan_closed", "(Array Int Bool)")
	x.comp("Chan_len", "(Array Int Int)")
	x.comp("Chan_cap", "(Array Int Int)")
	hc := x.heapGet(st, "Chan_closed", "(Array Int Bool)")
	hl := x.heapGet(st, "Chan_len", "(Array Int Int)")
	hcap := x.heapGet(st, "Chan_cap", "(Array Int Int)")
	newLen := hl
	for i, s := range in.States {
		ch := x.val(s.Chan).T
		chosen := eq(idx, fmt.Sprint(i))
		x.chanBounds(st, ch)
		if s.Dir == types.SendOnly && s.Pos.IsValid() {
			// pseudo call site chansend#k for the send case (evaluated before the select: the
			// channel and the value the case would send)
			x.sitePosOverride = s.Pos
			x.siteAssertions(st, in, "chansend", []Val{x.val(s.Chan), x.val(s.Send)})
			x.sitePosOverride = token.NoPos
		}
		if s.Dir != types.SendOnly && !in.Blocking {
			// the default case is taken only when no receive is ready: the buffers are empty
			x.assume(st, implies(and(eq(idx, "(- 1)"), not(eq(ch, "0"))), eq(sx("select", hl, ch), "0")))
		}
		if s.Dir == types.SendOnly {
			// a send on a closed channel panics if that case is chosen
			x.safety(st, "chan", implies(chosen, not(sx("select", hc, ch))), in.Pos())
			if !in.Blocking {
				// non-blocking send succeeds only if there is room (buffered) — receiver readiness unknown
				x.assume(st, implies(and(chosen, sx(">", sx("select", hcap, ch), "0")), sx("<", sx("select", hl, ch), sx("select", hcap, ch))))
				// and with room in the buffer the default case is not taken
				x.assume(st, implies(and(eq(idx, "(- 1)"), sx(">", sx("select", hcap, ch), "0"), fmt.Sprintf("%t", n == 1)), sx(">=", sx("select", hl, ch), sx("select", hcap, ch))))
			}
			newLen = ite(and(chosen, sx(">", sx("select", hcap, ch), "0")), sx("store", hl, ch, sx("+", sx("select", hl, ch), "1")), newLen)
		} else {
			if !in.Blocking {
				x.assume(st, implies(and(chosen, not(sx("select", hc, ch))), sx(">", sx("select", hl, ch), "0")))
			}
			newLen = ite(and(chosen, sx(">", sx("select", hl, ch), "0")), sx("store", hl, ch, sx("-", sx("select", hl, ch), "1")), newLen)
		}
	}
	if in.Blocking {
		x.abstract("blocking select (yield point: heap havocked)")
		x.yieldEffect(st, in)
	} else {
		st.heap["Chan_len"] = x.define(x.fresh("Chan_len"), "(Array Int Int)", newLen)
	}
	vs := []Val{{T: idx}, {T: x.havocConst("sel_ok", "Bool")}}
	for i := 2; i < tu.Len(); i++ {
		vs = append(vs, Val{T: x.havocValue(st, tu.At(i).Type(), "sel_r")})
	}
	x.vals[in] = Val{Tu: vs}
}

// chanBounds: the runtime keeps 0 <= len(ch) <= cap(ch) for every channel.
func (x *Exec) chanBounds(st *State, ch Term) {
	x.comp("Chan_len", "(Array Int Int)")
	x.comp("Chan_cap", "(Array Int Int)")
	hl := x.heapGet(st, "Chan_len", "(Array Int Int)")
	hcap := x.heapGet(st, "Chan_cap", "(Array Int Int)")
	x.assume(st, and(sx("<=", "0", sx("select", hl, ch)), sx("<=", sx("select", hl, ch), sx("select", hcap, ch))))
	x.assumed["Go channel semantics as modelled: 0 <= len(ch) <= cap(ch); len and cap of a nil channel are 0; a non-blocking receive takes its default case only when the buffer is empty; a non-blocking send succeeds only when the buffer has room; channel CONTENTS are not modelled (length, capacity and the closed flag only)"] = true
	// len and cap of a nil channel are 0
	x.assume(st, implies(eq(ch, "0"), eq(sx("select", hcap, ch), "0")))
}

// bodyBlocks: does the function's own body contain a blocking channel operation
// (send, receive, blocking select)? Callers of such a function under contract
// treat the call as a yield point.
func bodyBlocks(fn *ssa.Function) bool {
	for _, b := range fn.Blocks {
		for _, in := range b.Instrs {
			switch in := in.(type) {
			case *ssa.Send:
				return true
			case *ssa.Select:
				if in.Blocking {
					return true
				}
			case *ssa.UnOp:
				if in.Op == token.ARROW {
					return true
				}
			}
		}
	}
	return false
}

// loopOfInstr: the innermost natural loop containing the instruction.
func (x *Exec) loopOfInstr(in ssa.Instruction) *loopInfo {
	var best *loopInfo
	for _, li := range x.loops {
		if li.body[in.Block()] || li.head == in.Block() {
			if best == nil || len(li.body) < len(best.body) {
				best = li
			}
		}
	}
	return best
}

// loopAddsToMap: may the loop body add an entry to some map of this type (a map
// store, a call that may change the key set other than the builtin delete, or a
// yield point)? Syntactic over-approximation.
func (x *Exec) loopAddsToMap(li *loopInfo, mt *types.Map) bool {
	has, _, _, _, _ := x.mapComps(mt)
	for b := range li.body {
		for _, in := range b.Instrs {
			switch in := in.(type) {
			case *ssa.MapUpdate:
				if mt2, ok := in.Map.Type().Underlying().(*types.Map); !ok || types.Identical(mt2, mt) {
					return true
				}
			case ssa.CallInstruction:
				if bi, ok := in.Common().Value.(*ssa.Builtin); ok && bi.Name() == "delete" {
					continue
				}
				cm, all := x.callModifies(in)
				if all {
					return true
				}
				for _, c := range cm {
					if c == has {
						return true
					}
				}
			case *ssa.Select, *ssa.Send:
				return true
			case *ssa.UnOp:
				if in.Op == token.ARROW {
					return true
				}
			}
		}
	}
	return false
}

func isMapType(t types.Type) bool { _, ok := t.Underlying().(*types.Map); return ok }

// frameCheckMap: a store into (or delete from) map m inside a function with a modifies
// clause must be covered by an entry `m[*]` (or `*`), unless m was allocated by this call.
func (x *Exec) frameCheckMap(st *State, m Term, pos token.Pos) {
	if x.fc == nil || !x.fc.HasMod {
		return
	}
	ok := []Term{sx(">", m, x.entry.allocTop)}
	for _, e := range x.modEntries(x.fc, x.fn, nil, x.entry) {
		if e.all {
			return
		}
		if e.elem && e.mapT != nil {
			ok = append(ok, eq(m, e.ref))
		}
	}
	x.oblige(st, "frame", fmt.Sprintf("frame:%d", x.ordinal("frame")), or(ok...), pos, false, x.props())
}

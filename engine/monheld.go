package main

// Monitors held across yield points. While the executing goroutine holds a
// declared monitor's mutex, the fields that monitor protects on that object
// cannot be changed by other goroutines; a blocking channel operation made
// inside the critical section (a yield point: everything else on the heap may
// change) therefore leaves them as they were.

import (
	"fmt"
	"go/token"
	"go/types"
)

type heldMon struct {
	mon    *MonitorDecl
	owner  Term
	ownerT types.Type
}

func (st *State) holdMon(h heldMon) {
	st.held = append(append([]heldMon{}, st.held...), h)
}

func (st *State) releaseMon(mon *MonitorDecl, owner Term) {
	var out []heldMon
	dropped := false
	for i := len(st.held) - 1; i >= 0; i-- {
		h := st.held[i]
		// the owner is not compared: the same object is reached through different SSA values
		// (each statement reloads the receiver), so the most recent acquisition of this
		// monitor is the one released
		if !dropped && h.mon == mon {
			dropped = true
			continue
		}
		out = append([]heldMon{h}, out...)
	}
	st.held = out
}

// heldIntersect: monitors held on every incoming edge (same declaration, same owner term).
func heldIntersect(edges []inEdge) []heldMon {
	if len(edges) == 0 {
		return nil
	}
	var out []heldMon
	for _, h := range edges[0].st.held {
		all := true
		for _, e := range edges[1:] {
			found := false
			for _, g := range e.st.held {
				if g.mon == h.mon && g.owner == h.owner {
					found = true
				}
			}
			if !found {
				all = false
			}
		}
		if all {
			out = append(out, h)
		}
	}
	return out
}

// yieldEffect: a blocking channel operation. Everything may change except the
// fields protected by monitors this goroutine holds.
func (x *Exec) yieldEffect(st *State, in interface{ Pos() token.Pos }) {
	type keep struct {
		cn, srt string
		ref, old Term
	}
	var keeps []keep
	for _, h := range st.held {
		s, ok := h.ownerT.Underlying().(*types.Struct)
		if !ok {
			continue
		}
		for _, p := range h.mon.Protects {
			for k := 0; k < s.NumFields(); k++ {
				if s.Field(k).Name() != p || isStruct(s.Field(k).Type()) {
					continue
				}
				cn, srt, _ := x.fieldComp(h.ownerT, k)
				fv := sx("select", x.heapGet(st, cn, srt), h.owner)
				keeps = append(keeps, keep{cn, srt, h.owner, fv})
				if mt, ok := s.Field(k).Type().Underlying().(*types.Map); ok {
					// the entries of a protected map are protected with it (one level)
					mref := x.define(x.fresh("heldmap"), "Int", fv)
					has, val, ln, hs, vs := x.mapComps(mt)
					keeps = append(keeps, keep{has, hs, mref, sx("select", x.heapGet(st, has, hs), mref)})
					keeps = append(keeps, keep{val, vs, mref, sx("select", x.heapGet(st, val, vs), mref)})
					keeps = append(keeps, keep{ln, "(Array Int Int)", mref, sx("select", x.heapGet(st, ln, "(Array Int Int)"), mref)})
				}
			}
		}
	}
	if x.fc != nil && x.fc.Opts["yields"] != "" {
		// `opt yields`: the function is declared to contain blocking operations; what other
		// goroutines do meanwhile is not this function's effect (no frame obligation), and
		// callers apply the same yield at the call
		x.havocHeapAll(st)
		x.havocTop(st)
	} else {
		x.unknownEffect(st, in.Pos())
	}
	for _, k := range keeps {
		hv := x.heapGet(st, k.cn, k.srt)
		st.heap[k.cn] = x.define(x.fresh(k.cn), k.srt, sx("store", hv, k.ref, k.old))
	}
	if len(keeps) > 0 {
		x.assumed["fields protected by a monitor that the goroutine holds are unchanged across its own blocking channel operations (lock discipline of the declared monitor)"] = true
	}
}

// holdAtEntry: `opt heldmu <field>` -- the caller holds the receiver's mutex <field> for the
// whole call (a *Locked helper). The declared monitor is held from entry on.
func (x *Exec) holdAtEntry(st *State) {
	if x.fc == nil || x.fc.Opts["heldmu"] == "" || len(x.fn.Params) == 0 {
		return
	}
	rp := x.fn.Params[0]
	ownerT := deref(rp.Type())
	named, _ := ownerT.(*types.Named)
	if named == nil || named.Obj().Pkg() == nil {
		x.errorf("opt heldmu: receiver is not a named struct")
		return
	}
	mon := x.L.Monitors[named.Obj().Pkg().Path()+"."+named.Obj().Name()+"."+x.fc.Opts["heldmu"]]
	if mon == nil {
		x.errorf("opt heldmu %s: no monitor declared for %s", x.fc.Opts["heldmu"], named.Obj().Name())
		return
	}
	st.holdMon(heldMon{mon: mon, owner: x.vals[rp].T, ownerT: ownerT})
	x.assumed[fmt.Sprintf("%s: every caller holds %s.%s for the whole call (opt heldmu; the callers under contract are checked to hold it at the call site when they assert held(...))", x.short, named.Obj().Name(), mon.Mu)] = true
}

package main

// Monitors held across yield points. While the executing goroutine holds a
// declared monitor's mutex, the fields that monitor protects on that object
// cannot be changed by other goroutines; a blocking channel operation made
// inside the critical section (a yield point: everything else on the heap may
// change) therefore leaves them as they were.

import (
	"go/token"
	"go/types"
)

type heldMon struct {
	mon    *MonitorDecl
	owner  Term
	ownerT types.Type
}

func (st *State) holdMon(h heldMon) {
	st.held = append(append([]heldMon{}, st.held...), h)
}

func (st *State) releaseMon(mon *MonitorDecl, owner Term) {
	var out []heldMon
	dropped := false
	for i := len(st.held) - 1; i >= 0; i-- {
		h := st.held[i]
		// the owner is not compared: the same object is reached through different SSA values
		// (each statement reloads the receiver), so the most recent acquisition of this
		// monitor is the one released
		if !dropped && h.mon == mon {
			dropped = true
			continue
		}
		out = append([]heldMon{h}, out...)
	}
	st.held = out
}

// heldIntersect: monitors held on every incoming edge (same declaration, same owner term).
func heldIntersect(edges []inEdge) []heldMon {
	if len(edges) == 0 {
		return nil
	}
	var out []heldMon
	for _, h := range edges[0].st.held {
		all := true
		for _, e := range edges[1:] {
			found := false
			for _, g := range e.st.held {
				if g.mon == h.mon && g.owner == h.owner {
					found = true
				}
			}
			if !found {
				all = false
			}
		}
		if all {
			out = append(out, h)
		}
	}
	return out
}

// yieldEffect: a blocking channel operation. Everything may change except the
// fields protected by monitors this goroutine holds.
func (x *Exec) yieldEffect(st *State, in interface{ Pos() token.Pos }) {
	type keep struct {
		cn, srt string
		ref, old Term
	}
	var keeps []keep
	for _, h := range st.held {
		s, ok := h.ownerT.Underlying().(*types.Struct)
		if !ok {
			continue
		}
		for _, p := range h.mon.Protects {
			for k := 0; k < s.NumFields(); k++ {
				if s.Field(k).Name() != p || isStruct(s.Field(k).Type()) {
					continue
				}
				cn, srt, _ := x.fieldComp(h.ownerT, k)
				keeps = append(keeps, keep{cn, srt, h.owner, sx("select", x.heapGet(st, cn, srt), h.owner)})
			}
		}
	}
	x.unknownEffect(st, in.Pos())
	for _, k := range keeps {
		hv := x.heapGet(st, k.cn, k.srt)
		st.heap[k.cn] = x.define(x.fresh(k.cn), k.srt, sx("store", hv, k.ref, k.old))
	}
	if len(keeps) > 0 {
		x.assumed["fields protected by a monitor that the goroutine holds are unchanged across its own blocking channel operations (lock discipline of the declared monitor)"] = true
	}
}

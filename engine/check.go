package main

// The per-property check driver: runs the verifier on the packages a property
// is anchored in, compares with the committed baseline of discharged
// obligations, prints VIOLATION / KNOWN-FINDING lines and writes evidence.

import (
	"encoding/json"
	"flag"
	"fmt"
	"os"
	"os/exec"
	"path/filepath"
	"regexp"
	"sort"
	"strings"
	"time"
)

type PropConfig struct {
	ID       string   `json:"id"`
	Packages []string `json:"packages"`
	Note     string   `json:"note,omitempty"`
	Bounded  []string `json:"bounded,omitempty"`
	TimeoutS int      `json:"timeout_s,omitempty"` // per-obligation solver timeout of the quick tier (default 10)
}

type Baseline struct {
	Property    string   `json:"property"`
	Obligations []string `json:"obligations"` // must be discharged (unsat)
	Canaries    []string `json:"canaries"`    // must not be unsat
	Unclaimed   []string `json:"unclaimed"`   // generated but not discharged when the baseline was taken (not part of the claim)
}

type KnownFinding struct {
	Property   string `json:"property"`
	Obligation string `json:"obligation"`
	Status     string `json:"status"` // known | fixed
	Commit     string `json:"commit,omitempty"`
	What       string `json:"what"`
}

type Evidence struct {
	PropertyID string         `json:"property_id"`
	Tier       string         `json:"tier"`
	Seed       int            `json:"seed"`
	Level      string         `json:"level"`
	Coverage   map[string]any `json:"coverage"`
	Assump     []string       `json:"assumptions"`
	WallS      float64        `json:"wall_s"`
	Violations int            `json:"violations"`
}

var verifDir = "/verif"

func readJSON(path string, v any) error {
	b, err := os.ReadFile(path)
	if err != nil {
		return err
	}
	return json.Unmarshal(b, v)
}

func writeJSON(path string, v any) error {
	b, err := json.MarshalIndent(v, "", " ")
	if err != nil {
		return err
	}
	os.MkdirAll(filepath.Dir(path), 0o755)
	return os.WriteFile(path, append(b, '\n'), 0o644)
}

func hasProp(props []string, id string) bool {
	for _, p := range props {
		if p == id {
			return true
		}
	}
	return false
}

type runOutput struct {
	results      []*SolveResult
	funcs        []string
	trusted      []string
	assumed      map[string]bool
	abstracts    map[string]bool
	checkedFacts map[string]bool // facts used like assumptions but checked mechanically on this run
	errs         []string
	missing      []string
	vcBytes      int
	loadS        float64
}

// verifyProperty runs every function contract tagged with prop in the listed packages.
func verifyProperty(repo string, cfg *PropConfig, timeoutS int, overlay map[string][]byte, keepDir string, onlyNames map[string]bool) (*runOutput, error) {
	t0 := time.Now()
	L, err := loadWithOverlay(repo, cfg.Packages, overlay)
	if err != nil {
		return nil, err
	}
	out := &runOutput{assumed: map[string]bool{}, abstracts: map[string]bool{}, checkedFacts: map[string]bool{}, loadS: time.Since(t0).Seconds()}
	var keys []string
	for k := range L.FuncCon {
		keys = append(keys, k)
	}
	sort.Strings(keys)
	type job struct {
		x *Exec
	}
	var execs []*Exec
	for _, k := range keys {
		fc := L.FuncCon[k]
		if !hasProp(fc.Props, cfg.ID) {
			continue
		}
		if fc.Trusted {
			out.trusted = append(out.trusted, k)
			continue
		}
		fn := findFunction(L, fc.Pkg, fc.Key)
		if fn == nil {
			out.missing = append(out.missing, k)
			continue
		}
		x := newExec(L, fn, fc)
		x.run()
		out.funcs = append(out.funcs, x.short)
		out.vcBytes += x.out.Len()
		for _, e := range x.errs {
			out.errs = append(out.errs, x.short+": "+e)
		}
		for a, tr := range x.assumed {
			if tr {
				out.assumed[a] = true
			} else if strings.HasPrefix(a, "unexported error variable ") {
				out.checkedFacts[a] = true
			}
		}
		for a := range x.abstracts {
			out.abstracts[x.short+": "+a] = true
		}
		execs = append(execs, x)
	}
	// solve all functions concurrently (bounded)
	type res struct{ rs []*SolveResult }
	ch := make(chan res, len(execs))
	sem := make(chan struct{}, 3)
	for _, x := range execs {
		x := x
		go func() {
			sem <- struct{}{}
			defer func() { <-sem }()
			rs := solveAll(x, keepDir, timeoutS, 4, func(o *Obligation) bool {
				if onlyNames != nil && !onlyNames[o.Name] {
					return false
				}
				if o.Canary {
					return true
				}
				return hasProp(o.Props, cfg.ID)
			})
			ch <- res{rs}
		}()
	}
	for range execs {
		r := <-ch
		out.results = append(out.results, r.rs...)
	}
	sort.Slice(out.results, func(i, j int) bool { return out.results[i].Name < out.results[j].Name })
	return out, nil
}

func loadWithOverlay(repo string, pkgs []string, overlay map[string][]byte) (*Loaded, error) {
	extraOverlay = overlay
	defer func() { extraOverlay = nil }()
	return load(repo, pkgs)
}

var extraOverlay map[string][]byte

var modelDefRe = regexp.MustCompile(`\(define-fun (in_[A-Za-z0-9_]+) \(\) [^\n]*\n?\s*([^\n]*)\)`)

func checkMain(args []string) int {
	fs := flag.NewFlagSet("check", flag.ExitOnError)
	repo := fs.String("repo", "/repo", "repository")
	tier := fs.String("tier", "quick", "quick|thorough")
	writeBase := fs.Bool("write-baseline", false, "write the baseline from this run")
	replay := fs.String("replay", "", "re-run the obligation recorded in this replay file")
	verbose := fs.Bool("v", false, "print every obligation")
	fs.Parse(args)
	if fs.NArg() < 1 {
		fmt.Fprintln(os.Stderr, "usage: gcv check [flags] <property-id>")
		return 2
	}
	id := fs.Arg(0)
	if t := os.Getenv("VERIF_TIER"); t != "" && *tier == "quick" {
		*tier = t
	}
	seed := 0
	fmt.Sscanf(os.Getenv("VERIF_SEED"), "%d", &seed)
	t0 := time.Now()
	var cfg PropConfig
	if err := readJSON(filepath.Join(verifDir, "props", id+".json"), &cfg); err != nil {
		fmt.Fprintln(os.Stderr, "no configuration for property", id, ":", err)
		return 2
	}
	timeoutS := 10
	if cfg.TimeoutS > 0 {
		timeoutS = cfg.TimeoutS
	}
	if *tier == "thorough" {
		timeoutS = 60
		if 2*cfg.TimeoutS > timeoutS {
			timeoutS = 2 * cfg.TimeoutS
		}
	}
	tmp, _ := os.MkdirTemp("", "gcv-"+id+"-")
	defer os.RemoveAll(tmp)
	var only map[string]bool
	if *replay != "" {
		only = map[string]bool{}
		b, _ := os.ReadFile(*replay)
		for _, ln := range strings.Split(string(b), "\n") {
			if strings.HasPrefix(ln, "obligation: ") {
				only[strings.TrimSpace(strings.TrimPrefix(ln, "obligation: "))] = true
			}
		}
	}
	out, err := verifyProperty(*repo, &cfg, timeoutS, nil, tmp, only)
	if err != nil {
		// a tree that no longer loads with the contracts: the property can no longer be shown
		fmt.Fprintln(os.Stderr, "ENGINE-ERROR:", err)
		rp := writeReplay(id, "load", "the packages no longer load together with the contract files:\n"+err.Error(), nil, "")
		fmt.Printf("VIOLATION property=%s replay=%s no-failing-input-found\n", id, rp)
		writeEvidence(id, *tier, seed, nil, &cfg, time.Since(t0).Seconds(), 1, nil, nil)
		return 1
	}
	var base Baseline
	basePath := filepath.Join(verifDir, "baseline", id+".json")
	haveBase := readJSON(basePath, &base) == nil
	if *writeBase {
		nb := Baseline{Property: id}
		vacuousAtBaseline := 0
		for _, r := range out.results {
			switch {
			case r.Canary:
				if r.Result != "unsat" {
					nb.Canaries = append(nb.Canaries, r.Name)
				} else {
					fmt.Printf("VACUOUS: canary %s is unsatisfiable on the tree the baseline is taken from: contradictory assumptions or an unreachable site; fix the contract or the engine before claiming\n", r.Name)
					vacuousAtBaseline++
				}
			case r.Result == "unsat" || isKnownFinding(id, r.Name):
				// a recorded known finding stays an obligation of the property: it is reported
				// as KNOWN-FINDING while it fails and must not be silently dropped from the claim
				nb.Obligations = append(nb.Obligations, r.Name)
			default:
				nb.Unclaimed = append(nb.Unclaimed, r.Name)
			}
		}
		if vacuousAtBaseline > 0 {
			fmt.Println("baseline NOT written: vacuous canaries")
			return 2
		}
		writeJSON(basePath, nb)
		base = nb
		haveBase = true
		fmt.Printf("baseline written: %d obligations, %d canaries, %d unclaimed\n", len(nb.Obligations), len(nb.Canaries), len(nb.Unclaimed))
	}
	if !haveBase {
		fmt.Fprintln(os.Stderr, "no baseline for", id)
		return 2
	}
	evidenceUnclaimed = map[string]bool{}
	for _, n := range base.Unclaimed {
		evidenceUnclaimed[n] = true
	}
	var known []KnownFinding
	readJSON(filepath.Join(verifDir, "known_findings.json"), &known)
	knownFor := func(name string) *KnownFinding {
		for i := range known {
			if known[i].Property == id && known[i].Obligation == name && known[i].Status == "known" {
				return &known[i]
			}
		}
		return nil
	}
	byName := map[string]*SolveResult{}
	for _, r := range out.results {
		byName[r.Name] = r
	}
	if !*writeBase {
		// claimed obligations the first (parallel) pass left undecided get a second pass with
		// less contention and a longer limit before anything is reported: see secondChance
		var again []*SolveResult
		for _, name := range base.Obligations {
			if r := byName[name]; r != nil && knownFor(name) == nil && (only == nil || only[name]) {
				again = append(again, r)
			}
		}
		retryS := 4 * timeoutS
		if retryS < 60 {
			retryS = 60
		}
		secondChance(again, retryS)
		for _, r := range again {
			if r.Retried {
				fmt.Fprintf(os.Stderr, "note: %s was undecided within %d s in the parallel pass; second pass (limit %d s): %s by %s in %.1f s\n", r.Name, timeoutS, retryS, r.Result, r.Solver, r.TimeS)
			}
		}
	}
	violations := 0
	renumbered := 0
	var vlines []string
	var undecided []string
	discharged := 0
	total := 0
	report := func(name, why string, r *SolveResult) {
		if only != nil && !only[name] {
			return
		}
		if kf := knownFor(name); kf != nil {
			fmt.Printf("KNOWN-FINDING: property=%s %s (%s)\n", id, kf.What, name)
			return
		}
		violations++
		model, file := "", ""
		if r != nil {
			model, file = r.Model, r.File
		}
		suffix := ""
		rp, reproduced := replayViolation(id, name, why, r, *repo)
		_ = model
		_ = file
		if !reproduced {
			suffix = " no-failing-input-found"
		}
		line := fmt.Sprintf("VIOLATION property=%s replay=%s%s", id, rp, suffix)
		fmt.Println(line)
		vlines = append(vlines, line)
	}
	for _, e := range out.errs {
		fmt.Fprintln(os.Stderr, "engine note:", e)
	}
	if only == nil {
		for _, m := range out.missing {
			report(m+":target", "the function under contract no longer exists: "+m, nil)
		}
	}
	for _, name := range base.Obligations {
		if only != nil && !only[name] {
			continue
		}
		total++
		r := byName[name]
		switch {
		case r == nil && safetyNameRe.MatchString(name) && funcStillPresent(name, out):
			// per-instruction safety obligations are numbered in instruction order; an edit
			// that removes a dereference renumbers them. The function is still verified and
			// every safety obligation it now generates is checked below.
			total--
			renumbered++
		case r == nil:
			report(name, "obligation is no longer generated (function or clause target missing)", nil)
		case r.Result == "unsat":
			discharged++
		default:
			report(name, fmt.Sprintf("obligation discharged on the baseline tree is now %s (%s)", r.Result, r.Solver), r)
		}
	}
	for _, name := range base.Canaries {
		if only != nil {
			continue
		}
		r := byName[name]
		if r != nil && r.Result == "unsat" {
			report(name, "vacuity guard: precondition/exit became unsatisfiable (contradictory assumptions)", r)
		}
	}
	inBase := map[string]bool{}
	for _, n := range base.Obligations {
		inBase[n] = true
	}
	for _, n := range base.Unclaimed {
		inBase[n] = true
	}
	for _, r := range out.results {
		if r.Canary || inBase[r.Name] {
			continue
		}
		// new obligation (e.g. a new index expression introduced by an edit)
		if r.Result == "unsat" {
			continue
		}
		if kf := knownFor(r.Name); kf != nil {
			fmt.Printf("KNOWN-FINDING: property=%s %s (%s)\n", id, kf.What, r.Name)
			continue
		}
		if (r.Safety || r.Kind == "frame" || r.Kind == "atomic") && renumbered > 0 {
			// the function's safety obligations were renumbered by an edit, so baseline names
			// no longer identify them: in a function whose contract says `nopanic` every
			// panic-freedom obligation it generates must discharge
			report(r.Name, fmt.Sprintf("panic-freedom obligation of a nopanic function is %s (%s)", r.Result, r.Solver), r)
			continue
		}
		if r.Result == "sat" && (r.Kind == "loop-preserve" || r.Kind == "loop-init" || r.Kind == "mon-inv") {
			// a NEW instance of a clause the baseline already claims (the same invariant on a path
			// or back edge that did not exist before) that has a counter-model: the claimed
			// clause no longer holds for the edited code
			report(r.Name, fmt.Sprintf("claimed invariant fails on a path that is new in this tree: %s (%s)", r.Result, r.Solver), r)
			continue
		}
		if r.Result == "sat" {
			// only a reproduced failure counts; otherwise undecided
			rp, reproduced := replayViolation(id, r.Name, "new obligation not in baseline fails", r, *repo)
			if reproduced {
				violations++
				fmt.Printf("VIOLATION property=%s replay=%s\n", id, rp)
				continue
			}
		}
		undecided = append(undecided, r.Name+" ("+r.Result+")")
	}
	// known findings must still be present (canaries for the engine)
	for _, kf := range known {
		if kf.Property != id || kf.Status != "known" || only != nil {
			continue
		}
		if r := byName[kf.Obligation]; r != nil && r.Result == "unsat" {
			fmt.Printf("NOTE: known finding %s no longer reproduces (obligation now discharged)\n", kf.Obligation)
		}
	}
	if *verbose {
		for _, r := range out.results {
			fmt.Printf("  %-70s %-8s %-10s %6.2fs %s\n", r.Name, r.Result, r.Solver, r.TimeS, r.Clause)
		}
		for a := range out.abstracts {
			fmt.Println("  abstracted:", a)
		}
	}
	mut := map[string]any(nil)
	if *tier == "thorough" && only == nil {
		m, bad := runSelftest(id, &cfg, *repo, 20)
		mut = m
		if bad > 0 {
			fmt.Fprintf(os.Stderr, "ENGINE-ERROR: %d self-test mutants were not detected\n", bad)
			writeEvidence(id, *tier, seed, out, &cfg, time.Since(t0).Seconds(), violations, undecided, mut)
			return 3
		}
	}
	cov := writeEvidence(id, *tier, seed, out, &cfg, time.Since(t0).Seconds(), violations, undecided, mut)
	fmt.Printf("property %s: %d/%d baseline obligations discharged, %d violations, %d undecided new obligations, %.1fs (%s)\n", id, discharged, total, violations, len(undecided), time.Since(t0).Seconds(), cov)
	if violations > 0 {
		return 1
	}
	return 0
}

func writeEvidence(id, tier string, seed int, out *runOutput, cfg *PropConfig, wall float64, violations int, undecided []string, mutants map[string]any) string {
	ev := Evidence{PropertyID: id, Tier: tier, Seed: seed, Level: "proof", WallS: wall, Violations: violations, Coverage: map[string]any{}}
	cov := ev.Coverage
	cov["checker_cmd"] = fmt.Sprintf("./check %s --tier %s  (gcv: go/ssa VC generator over /repo working tree; z3 4.8.12 / z3 5.1.0 / cvc5 1.0 raced per obligation)", id, tier)
	trusted := []string{
		"gcv VC generator (this repository, /verif/engine): go/ssa -> SMT translation, heap model, wrap-around integer semantics, havoc/frame rules; guarded by the self-test mutants and vacuity canaries, not proved",
		"golang.org/x/tools v0.29.0 go/packages, go/types, go/ssa (vendored)",
		"SMT solvers z3 4.8.12, z3 5.1.0, cvc5 1.0 (an unsat answer from one solver is accepted in the quick tier)",
	}
	if out == nil {
		cov["obligations"] = 0
		cov["discharged"] = 0
		cov["trusted_base"] = trusted
		cov["evaluations"] = 1
		cov["distinct_nontrivial"] = 0
		writeJSON(filepath.Join(verifDir, "evidence", id+".json"), ev)
		return "no run"
	}
	nob, ndis := 0, 0
	var samples []any
	var obl []any
	var unclaimedList []any
	var knownSeen []any
	defer func() { evidenceUnclaimed = nil }()
	perSolver := map[string]float64{}
	for _, r := range out.results {
		if r.Canary {
			continue
		}
		if evidenceUnclaimed[r.Name] {
			// generated and attempted, but not part of the claim (never discharged on the
			// baseline tree): reported separately, not counted as an obligation of the proof
			unclaimedList = append(unclaimedList, map[string]any{"name": r.Name, "result": r.Result, "clause": r.Clause})
			continue
		}
		if r.Result != "unsat" && isKnownFinding(id, r.Name) {
			// recorded genuine defect of the code (known_findings.json): reported on every run as
			// KNOWN-FINDING, not part of the discharged claim
			knownSeen = append(knownSeen, map[string]any{"name": r.Name, "result": r.Result, "clause": r.Clause})
			continue
		}
		nob++
		if r.Result == "unsat" {
			ndis++
		}
		perSolver[r.Solver] += r.TimeS
		obl = append(obl, map[string]any{"name": r.Name, "kind": r.Kind, "result": r.Result, "solver": r.Solver, "time_s": round3(r.TimeS), "smt_bytes": r.SMTBytes, "clause": r.Clause})
		if r.Retried {
			obl[len(obl)-1].(map[string]any)["second_pass"] = true
		}
		if len(samples) < 6 && r.Clause != "" {
			samples = append(samples, map[string]any{"obligation": r.Name, "clause": r.Clause, "result": r.Result, "solver": r.Solver})
		}
	}
	if len(samples) == 0 && len(obl) > 0 {
		samples = append(samples, obl[0])
	}
	var canaries []any
	for _, r := range out.results {
		if r.Canary {
			canaries = append(canaries, map[string]any{"name": r.Name, "result": r.Result, "ok": r.Result != "unsat"})
		}
	}
	cov["obligations"] = nob
	cov["discharged"] = ndis
	cov["unclaimed_obligations_not_discharged"] = unclaimedList
	cov["known_findings_seen"] = knownSeen
	cov["functions_under_contract"] = out.funcs
	cov["trusted_contracts"] = out.trusted
	cov["obligation_results"] = obl
	cov["samples"] = samples
	cov["canaries"] = canaries
	cov["undecided_new_obligations"] = undecided
	cov["solver_time_s"] = perSolver
	solverMu.Lock()
	tot := map[string]float64{}
	for k, v := range solverSecs {
		tot[k] = round3(v)
	}
	solverMu.Unlock()
	cov["solver_cpu_s_all_backends"] = tot
	cov["vc_bytes"] = out.vcBytes
	cov["load_s"] = round3(out.loadS)
	cov["bounded"] = cfg.Bounded
	if mutants != nil {
		cov["selftest_mutants"] = mutants
	}
	var abs []string
	for a := range out.abstracts {
		abs = append(abs, a)
	}
	sort.Strings(abs)
	cov["abstracted_unmodelled"] = abs
	var cf []string
	for a := range out.checkedFacts {
		cf = append(cf, a)
	}
	sort.Strings(cf)
	cov["checked_side_facts"] = cf
	var as []string
	for a := range out.assumed {
		as = append(as, a)
	}
	sort.Strings(as)
	for _, t := range out.trusted {
		trusted = append(trusted, "TRUSTED contract (assumed, not verified): "+t)
	}
	cov["trusted_base"] = trusted
	ev.Assump = append(as,
		"partial correctness: termination is proved only for loops with a `decreases` clause",
		"sequential semantics per function; other goroutines interfere only at lock acquisition / calls without contract (heap havoc)",
		"data-race freedom and sequentially consistent atomics (Go memory model)",
		"integers are modelled exactly (two's-complement wrap-around), not as mathematical integers, except values of spec type Z",
		"no string or slice is longer than 2^48 elements (runtime.maxAlloc on 64-bit platforms); allocation failure is not modelled",
	)
	if cfg.Note != "" {
		ev.Assump = append(ev.Assump, "scope: "+cfg.Note)
	}
	writeJSON(filepath.Join(verifDir, "evidence", id+".json"), ev)
	return fmt.Sprintf("%d obligations, %d discharged", nob, ndis)
}

func round3(f float64) float64 { return float64(int(f*1000+0.5)) / 1000 }

func writeReplay(id, name, why string, r *SolveResult, extra string) string {
	dir := filepath.Join(verifDir, "replays")
	os.MkdirAll(dir, 0o755)
	path := filepath.Join(dir, id+"-"+sanitize(name)+".txt")
	var b strings.Builder
	fmt.Fprintf(&b, "property: %s\nobligation: %s\nreason: %s\n", id, name, why)
	if r != nil {
		fmt.Fprintf(&b, "function: %s\nclause: %s\ncontract line: %d\nsolver: %s\nresult: %s\n", r.Func, r.Clause, r.Line, r.Solver, r.Result)
		fmt.Fprintf(&b, "\n--- solver output ---\n%s\n", truncate(r.Output, 20000))
		if r.File != "" {
			if data, err := os.ReadFile(r.File); err == nil {
				smt := filepath.Join(dir, id+"-"+sanitize(name)+".smt2")
				os.WriteFile(smt, data, 0o644)
				fmt.Fprintf(&b, "\nsmt file: %s\n", smt)
			}
		}
	}
	if extra != "" {
		fmt.Fprintf(&b, "\n--- replay on the real code ---\n%s\n", extra)
	}
	fmt.Fprintf(&b, "\nre-run: cd /verif && ./check %s --replay %s\n", id, path)
	os.WriteFile(path, []byte(b.String()), 0o644)
	return path
}

func truncate(s string, n int) string {
	if len(s) > n {
		return s[:n] + "\n...[truncated]"
	}
	return s
}

// ---------------------------------------------------------------------------
// self-test mutants

type mutantMeta struct {
	Expect []string `json:"expect"` // at least one of these obligations must fail
	Note   string   `json:"note"`
}

func patchedOverlay(repo, patchFile string) (map[string][]byte, error) {
	data, err := os.ReadFile(patchFile)
	if err != nil {
		return nil, err
	}
	tmp, err := os.MkdirTemp("", "gcv-mut-")
	if err != nil {
		return nil, err
	}
	defer os.RemoveAll(tmp)
	var files []string
	for _, ln := range strings.Split(string(data), "\n") {
		if strings.HasPrefix(ln, "+++ b/") {
			files = append(files, strings.TrimSpace(strings.TrimPrefix(ln, "+++ b/")))
		}
	}
	for _, f := range files {
		src, err := os.ReadFile(filepath.Join(repo, f))
		if err != nil {
			return nil, err
		}
		os.MkdirAll(filepath.Dir(filepath.Join(tmp, f)), 0o755)
		os.WriteFile(filepath.Join(tmp, f), src, 0o644)
	}
	cmd := exec.Command("patch", "-p1", "-s", "-d", tmp, "-i", patchFile)
	if outp, err := cmd.CombinedOutput(); err != nil {
		return nil, fmt.Errorf("patch failed: %v: %s", err, outp)
	}
	ov := map[string][]byte{}
	for _, f := range files {
		b, err := os.ReadFile(filepath.Join(tmp, f))
		if err != nil {
			return nil, err
		}
		ov[filepath.Join(repo, f)] = b
	}
	return ov, nil
}

func runSelftest(id string, cfg *PropConfig, repo string, timeoutS int) (map[string]any, int) {
	dir := filepath.Join(verifDir, "selftest", id)
	ents, _ := filepath.Glob(filepath.Join(dir, "*.patch"))
	sort.Strings(ents)
	res := map[string]any{}
	bad := 0
	var base Baseline
	readJSON(filepath.Join(verifDir, "baseline", id+".json"), &base)
	inBase := map[string]bool{}
	for _, n := range base.Obligations {
		if !isKnownFinding(id, n) { // a recorded finding fails on the unchanged tree too: it detects nothing
			inBase[n] = true
		}
	}
	for _, pf := range ents {
		name := strings.TrimSuffix(filepath.Base(pf), ".patch")
		var meta mutantMeta
		readJSON(strings.TrimSuffix(pf, ".patch")+".json", &meta)
		ov, err := patchedOverlay(repo, pf)
		if err != nil {
			res[name] = "patch error: " + err.Error()
			bad++
			continue
		}
		tmp, _ := os.MkdirTemp("", "gcv-mut-run-")
		out, err := verifyProperty(repo, cfg, timeoutS, ov, tmp, nil)
		os.RemoveAll(tmp)
		if err != nil {
			res[name] = "detected (tree no longer loads with contracts): " + strings.SplitN(err.Error(), "\n", 2)[0]
			continue
		}
		var failed []string
		got := map[string]bool{}
		for _, r := range out.results {
			got[r.Name] = true
			if !r.Canary && inBase[r.Name] && r.Result != "unsat" {
				failed = append(failed, r.Name+"="+r.Result)
			} else if !r.Canary && !inBase[r.Name] && r.Result == "sat" && (r.Kind == "loop-preserve" || r.Kind == "loop-init" || r.Kind == "mon-inv") {
				// same rule as the check: a new instance of a claimed invariant with a counter-model
				failed = append(failed, r.Name+"=sat(new instance of a claimed invariant)")
			}
		}
		for n := range inBase {
			if !got[n] {
				failed = append(failed, n+"=missing")
			}
		}
		sort.Strings(failed)
		ok := len(failed) > 0
		if ok && len(meta.Expect) > 0 {
			ok = false
			for _, e := range meta.Expect {
				for _, f := range failed {
					if strings.HasPrefix(f, e+"=") {
						ok = true
					}
				}
			}
		}
		if !ok {
			bad++
			res[name] = map[string]any{"detected": false, "failed": failed, "expected": meta.Expect}
		} else {
			res[name] = map[string]any{"detected": true, "failed": failed}
		}
	}
	return res, bad
}

func selftestMain(args []string) int {
	fs := flag.NewFlagSet("selftest", flag.ExitOnError)
	repo := fs.String("repo", "/repo", "repository")
	fs.Parse(args)
	rc := 0
	for _, id := range fs.Args() {
		var cfg PropConfig
		if err := readJSON(filepath.Join(verifDir, "props", id+".json"), &cfg); err != nil {
			fmt.Fprintln(os.Stderr, err)
			return 2
		}
		res, bad := runSelftest(id, &cfg, *repo, 20)
		b, _ := json.MarshalIndent(res, "", " ")
		fmt.Printf("%s: %s\n", id, b)
		if bad > 0 {
			rc = 1
		}
	}
	return rc
}

package main

// Pure (dual-state) evaluation of clause functions and spec functions.

import (
	"fmt"
	"go/constant"
	"go/types"
	"os"
	"strings"

	"golang.org/x/tools/go/ssa"
)

type dual [2]Val

func dualOf(v Val) dual { return dual{v, v} }

// evalPure evaluates a side-effect-free SSA function symbolically and returns
// its results (a tuple as Tu) in the current (index 0) and old (index 1) state.
func (x *Exec) evalPure(fn *ssa.Function, args []dual, fvs []Val, views [2]memView, depth int) dual {
	if depth > 12 {
		x.errorf("pure evaluation too deep at %s", fn.Name())
		return dualOf(Val{T: x.X.zero(fn.Signature.Results().At(0).Type())})
	}
	if len(fn.Blocks) == 0 {
		x.errorf("pure evaluation of body-less function %s", fn.String())
		return dualOf(Val{T: x.havocPure("ext", x.X.sortOf(fn.Signature.Results().At(0).Type()))})
	}
	f := &frame{x: x, fn: fn, pure: true, fvs: fvs, depth: depth}
	for m := 0; m < 2; m++ {
		f.vals[m] = map[ssa.Value]Val{}
		f.pcells[m] = map[*ssa.Alloc]Term{}
		f.mem[m] = pureView{inner: views[m], f: f, mode: m}
	}
	for i, p := range fn.Params {
		if i < len(args) {
			f.vals[0][p] = args[i][0]
			f.vals[1][p] = args[i][1]
		}
	}
	return f.evalBlock(fn.Blocks[0], nil, 0)
}

func (f *frame) snapshot() ([2]map[ssa.Value]Val, [2]map[*ssa.Alloc]Term) {
	var v [2]map[ssa.Value]Val
	var c [2]map[*ssa.Alloc]Term
	for m := 0; m < 2; m++ {
		v[m] = make(map[ssa.Value]Val, len(f.vals[m]))
		for k, x := range f.vals[m] {
			v[m][k] = x
		}
		c[m] = make(map[*ssa.Alloc]Term, len(f.pcells[m]))
		for k, x := range f.pcells[m] {
			c[m][k] = x
		}
	}
	return v, c
}

func (f *frame) evalBlock(b *ssa.BasicBlock, prev *ssa.BasicBlock, steps int) dual {
	x := f.x
	if steps > 400 {
		x.errorf("pure evaluation of %s does not terminate (loop?)", f.fn.Name())
		return dualOf(Val{T: "false"})
	}
	for _, in := range b.Instrs {
		switch in := in.(type) {
		case *ssa.Phi:
			for i, p := range b.Preds {
				if p == prev {
					for m := 0; m < 2; m++ {
						f.mode = m
						f.set(in, f.get(in.Edges[i]))
					}
				}
			}
			continue
		case *ssa.Store:
			for m := 0; m < 2; m++ {
				f.mode = m
				av := f.get(in.Addr)
				v := f.get(in.Val)
				if av.A == nil || av.A.Kind != aCell {
					x.errorf("store to non-local memory in pure function %s", f.fn.Name())
					continue
				}
				if v.T == "" {
					// storing a symbolic address / closure into a private cell: keep as value binding
					f.vals[m][in.Addr] = Val{A: av.A, Cl: v.Cl, Tu: []Val{v}}
					f.pcells[m][av.A.Cell] = "@val"
					continue
				}
				ct := deref(av.A.Cell.Type())
				base, ok := f.pcells[m][av.A.Cell]
				if !ok {
					base = x.X.zero(ct)
				}
				f.pcells[m][av.A.Cell] = x.updatePath(base, ct, av.A.Path, v.T)
			}
			continue
		case *ssa.Call:
			f.pureCall(in)
			continue
		case *ssa.If:
			var c [2]Term
			for m := 0; m < 2; m++ {
				f.mode = m
				c[m] = f.get(in.Cond).T
			}
			if c[0] == "true" && c[1] == "true" {
				return f.evalBlock(b.Succs[0], b, steps+1)
			}
			if c[0] == "false" && c[1] == "false" {
				return f.evalBlock(b.Succs[1], b, steps+1)
			}
			sv, sc := f.snapshot()
			r1 := f.evalBlock(b.Succs[0], b, steps+1)
			f.vals, f.pcells = sv, sc
			r2 := f.evalBlock(b.Succs[1], b, steps+1)
			return mergeDual(c, r1, r2)
		case *ssa.Jump:
			return f.evalBlock(b.Succs[0], b, steps+1)
		case *ssa.Return:
			var res dual
			for m := 0; m < 2; m++ {
				f.mode = m
				if len(in.Results) == 1 {
					res[m] = f.get(in.Results[0])
				} else {
					var tu []Val
					for _, r := range in.Results {
						tu = append(tu, f.get(r))
					}
					res[m] = Val{Tu: tu}
				}
			}
			return res
		case *ssa.Panic:
			// unspecified value
			rt := f.fn.Signature.Results()
			if rt.Len() == 1 {
				return dualOf(Val{T: x.havocPure("panicval", x.X.sortOf(rt.At(0).Type()))})
			}
			return dualOf(Val{T: "false"})
		case *ssa.RunDefers:
			continue
		}
		ok := true
		for m := 0; m < 2; m++ {
			f.mode = m
			if ld, isLoad := in.(*ssa.UnOp); isLoad && ld.Op.String() == "*" {
				// load of a cell that holds a non-term binding
				if bv, has := f.vals[m][ld.X]; has && len(bv.Tu) == 1 && bv.A != nil {
					if t, okc := f.pcells[m][bv.A.Cell]; okc && t == "@val" {
						f.vals[m][ld] = bv.Tu[0]
						continue
					}
				}
			}
			if !f.evalCommon(in) {
				ok = false
			}
		}
		if !ok {
			x.errorf("pure evaluation: unsupported instruction %s (%T) in %s", in.String(), in, f.fn.Name())
			if v, isv := in.(ssa.Value); isv {
				for m := 0; m < 2; m++ {
					f.vals[m][v] = Val{T: x.havocPure("unsup", x.X.sortOf(v.Type()))}
				}
			}
		}
	}
	x.errorf("pure evaluation fell off block in %s", f.fn.Name())
	return dualOf(Val{T: "false"})
}

func mergeDual(c [2]Term, a, b dual) dual {
	var r dual
	for m := 0; m < 2; m++ {
		r[m] = mergeVal(c[m], a[m], b[m])
	}
	return r
}

func mergeVal(c Term, a, b Val) Val {
	if len(a.Tu) > 0 || len(b.Tu) > 0 {
		var tu []Val
		for i := range a.Tu {
			if i < len(b.Tu) {
				tu = append(tu, mergeVal(c, a.Tu[i], b.Tu[i]))
			}
		}
		return Val{Tu: tu}
	}
	return Val{T: ite(c, a.T, b.T)}
}

func originName(fn *ssa.Function) string {
	if o := fn.Origin(); o != nil {
		return o.Name()
	}
	return fn.Name()
}

func (x *Exec) isSpecHelper(fn *ssa.Function) bool {
	if fn.Pkg == nil && fn.Origin() != nil {
		fn = fn.Origin()
	}
	if fn.Pkg == nil {
		return false
	}
	pos := fn.Pos()
	if !pos.IsValid() {
		return false
	}
	file := x.L.Fset.Position(pos).Filename
	return strings.HasSuffix(file, genFileName) || strings.HasSuffix(file, contractFileName)
}

func (f *frame) pureCall(in *ssa.Call) {
	x := f.x
	var args []dual
	for _, a := range in.Call.Args {
		var d dual
		for m := 0; m < 2; m++ {
			f.mode = m
			d[m] = f.get(a)
		}
		args = append(args, d)
	}
	setBoth := func(d dual) {
		f.vals[0][in] = d[0]
		f.vals[1][in] = d[1]
	}
	setT := func(t0, t1 Term) { setBoth(dual{Val{T: t0}, Val{T: t1}}) }
	if b, ok := in.Call.Value.(*ssa.Builtin); ok {
		var r [2]Term
		for m := 0; m < 2; m++ {
			f.mode = m
			var av []Val
			for _, a := range args {
				av = append(av, a[m])
			}
			r[m] = f.builtinPure(b, in, av)
		}
		setT(r[0], r[1])
		return
	}
	if in.Call.IsInvoke() {
		if t, ok := x.externInvokePure(f, in, args); ok {
			setBoth(t)
			return
		}
		x.abstract("interface call in specification: " + in.Call.Method.FullName())
		h := x.havocPure("inv", x.X.sortOf(in.Type()))
		setT(h, h)
		return
	}
	callee := in.Call.StaticCallee()
	if callee == nil {
		// call of a closure value
		var cl *Closure
		f.mode = 0
		if v := f.get(in.Call.Value); v.Cl != nil {
			cl = v.Cl
		}
		if cl != nil {
			setBoth(x.evalPure(cl.Fn, args, cl.Bindings, [2]memView{f.mem[0], f.mem[1]}, f.depth+1))
			return
		}
		x.errorf("dynamic call in specification %s", f.fn.Name())
		h := x.havocPure("dyn", x.X.sortOf(in.Type()))
		setT(h, h)
		return
	}
	name := originName(callee)
	if x.isSpecHelper(callee) {
		switch name {
		case "old", "athead":
			// athead(e) is old(e) with the loop-head state as the second memory view (sites.go)
			setBoth(dual{args[0][1], args[0][1]})
			return
		case "implies":
			setT(implies(args[0][0].T, args[1][0].T), implies(args[0][1].T, args[1][1].T))
			return
		case "iff":
			setT(eq(args[0][0].T, args[1][0].T), eq(args[0][1].T, args[1][1].T))
			return
		case "ite":
			setBoth(dual{mergeVal(args[0][0].T, args[1][0], args[2][0]), mergeVal(args[0][1].T, args[1][1], args[2][1])})
			return
		case "forall", "exists", "forall2", "forallk":
			var r [2]Term
			nv := 1
			if name == "forall2" {
				nv = 2
			}
			var cl *Closure
			if args[0][0].Cl != nil {
				cl = args[0][0].Cl
			}
			if cl == nil {
				x.errorf("quantifier without function literal in %s", f.fn.Name())
				setT("false", "false")
				return
			}
			var bvs []string
			var bargs []dual
			var decl []string
			for i := 0; i < nv; i++ {
				bv := x.fresh("q")
				bvs = append(bvs, bv)
				bargs = append(bargs, dualOf(Val{T: bv}))
				qs := "Int"
				if (x.X.bvMode || name == "forallk") && i < len(cl.Fn.Params) {
					qs = x.X.sortOf(cl.Fn.Params[i].Type()) // bit-vector mode / forallk: the bound variable has its Go type's sort
				}
				decl = append(decl, fmt.Sprintf("(%s %s)", bv, qs))
			}
			x.qFacts = append(x.qFacts, nil)
			body := x.evalPure(cl.Fn, bargs, cl.Bindings, [2]memView{f.mem[0], f.mem[1]}, f.depth+1)
			facts := and(dedup(x.qFacts[len(x.qFacts)-1])...)
			x.qFacts = x.qFacts[:len(x.qFacts)-1]
			q := "forall"
			if name == "exists" {
				q = "exists"
			}
			for m := 0; m < 2; m++ {
				bt := body[m].T
				if name == "forallk" && len(cl.Fn.Params) > 0 {
					// the bound variable ranges over the values of its Go type
					if _, isBasic := cl.Fn.Params[0].Type().Underlying().(*types.Basic); isBasic {
						if ti := x.typeInvTop(cl.Fn.Params[0].Type(), bvs[0], "0"); ti != "true" {
							bt = implies(ti, bt)
						}
					}
				}
				if pats := autoPatterns(bt, bvs); len(pats) > 0 && os.Getenv("GCV_NOPATTERNS") == "" {
					ann := ""
					for _, p := range pats {
						ann += " :pattern (" + p + ")"
					}
					if len(bvs) == 1 && !x.X.bvMode && q == "forall" {
						// alternative trigger: every index term the code itself uses
						x.X.declare("idxmark", "(declare-fun idxmark (Int) Bool)")
						if x.fcOpt("triggers") == "idxmark" {
							// `opt triggers idxmark`: only that trigger (the array-read patterns can make
							// the solvers instantiate far more than the function's own indices need)
							ann = ""
						}
						ann += " :pattern ((idxmark " + bvs[0] + "))"
					}
					bt = "(! " + bt + ann + ")"
				}
				r[m] = fmt.Sprintf("(%s (%s) %s)", q, strings.Join(decl, " "), bt)
			}
			if facts != "true" && x.collectFacts && x.fcOpt("qfacts") == "on" {
				// values loaded under the quantifier are well-typed for every value of the bound
				// variable (every cell of a modelled array holds a well-typed value): a separate,
				// closed assumption rather than a change of the clause itself
				fact := fmt.Sprintf("(forall (%s) %s)", strings.Join(decl, " "), facts)
				rest := fact
				for _, bv := range bvs {
					rest = strings.ReplaceAll(rest, bv, "")
				}
				if !strings.Contains(rest, "q!") {
					x.pureFacts = append(x.pureFacts, fact)
				}
			}
			setT(r[0], r[1])
			return
		case "psum":
			// psum(f, s, n) = sum of f(s[i]) for 0 <= i < n  (uninterpreted, unfolded one step around each use)
			var r [2]Term
			for m := 0; m < 2; m++ {
				r[m] = x.psumTerm(f, callee, args[0][m], args[1][m].T, args[2][m].T, m)
			}
			setT(r[0], r[1])
			return
		case "lastrand":
			// the value most recently drawn from the random source in the function under contract
			if srt, ok := x.comps["Ghost_lastrand"]; ok {
				setT(f.mem[0].heapOf("Ghost_lastrand", srt), f.mem[1].heapOf("Ghost_lastrand", srt))
				return
			}
			r := x.havocPure("norand", "Int")
			setT(r, r)
			return
		case "lastval":
			// result of the most recent call through the function-valued field named (opt purecalls)
			if c, ok := in.Call.Args[0].(*ssa.Const); ok && c.Value != nil {
				cn := "Ghost_last_" + sanitize(constant.StringVal(c.Value))
				if srt, ok := x.comps[cn]; ok {
					setT(f.mem[0].heapOf(cn, srt), f.mem[1].heapOf(cn, srt))
					return
				}
			}
			h := x.havocPure("nolast", "Int")
			setT(h, h)
			return
		case "nchanges", "lastold", "lastnew":
			// ghosts of typed atomics (atomtyped.go), keyed by the field name
			if c, ok := in.Call.Args[0].(*ssa.Const); ok && c.Value != nil {
				pre := map[string]string{"nchanges": "Ghost_atom_nch_", "lastold": "Ghost_atom_old_", "lastnew": "Ghost_atom_new_"}[callee.Name()]
				cn := pre + sanitize(constant.StringVal(c.Value))
				x.comp(cn, "Int")
				setT(f.mem[0].heapOf(cn, "Int"), f.mem[1].heapOf(cn, "Int"))
				return
			}
			x.errorf("%s needs a string literal", callee.Name())
			setT("0", "0")
			return
		case "lastret":
			// integer result of the most recent call of the named callee on this path (ghost)
			if c, ok := in.Call.Args[0].(*ssa.Const); ok && c.Value != nil {
				cn := "Ghost_ret_" + sanitize(constant.StringVal(c.Value))
				x.comp(cn, "Int")
				setT(f.mem[0].heapOf(cn, "Int"), f.mem[1].heapOf(cn, "Int"))
				return
			}
			x.errorf("lastret needs a string literal")
			setT("0", "0")
			return
		case "ncalls":
			// number of calls of the named callee completed so far on this path (ghost counter)
			if c, ok := in.Call.Args[0].(*ssa.Const); ok && c.Value != nil {
				cn := "Ghost_calls_" + sanitize(constant.StringVal(c.Value))
				x.comp(cn, "Int")
				setT(f.mem[0].heapOf(cn, "Int"), f.mem[1].heapOf(cn, "Int"))
				return
			}
			x.errorf("ncalls needs a string literal")
			setT("0", "0")
			return
		case "held":
			// held("mu"): a declared monitor with that mutex field is held on this path
			// (by this goroutine, acquired in this function and not yet released)
			res := "false"
			if c, ok := in.Call.Args[0].(*ssa.Const); ok && c.Value != nil {
				mv := f.mem[0]
				for {
					pv, ok := mv.(pureView)
					if !ok {
						break
					}
					mv = pv.inner
				}
				if sv, ok := mv.(stateView); ok && sv.st != nil {
					for _, h := range sv.st.held {
						if h.mon.Mu == constant.StringVal(c.Value) {
							res = "true"
						}
					}
				}
			} else {
				x.errorf("held needs a string literal")
			}
			setT(res, res)
			return
		case "isstatus":
			setT(x.isStatus(args[0][0].T), x.isStatus(args[0][1].T))
			return
		case "statuscode":
			setT(x.statusCode(args[0][0].T), x.statusCode(args[0][1].T))
			return
		case "strdigits":
			setT(sx("str_isdigits", args[0][0].T), sx("str_isdigits", args[0][1].T))
			x.assumed["axioms for str_isdigits/str_parsedec/decstr (decimal strings)"] = true
			return
		case "parsedec":
			setT(sx("str_parsedec", args[0][0].T), sx("str_parsedec", args[0][1].T))
			return
		case "lower":
			setT(sx("strlower", args[0][0].T), sx("strlower", args[0][1].T))
			return
		case "imin":
			setT(sx("imin", args[0][0].T, args[1][0].T), sx("imin", args[0][1].T, args[1][1].T))
			return
		case "imax":
			setT(sx("imax", args[0][0].T, args[1][0].T), sx("imax", args[0][1].T, args[1][1].T))
			return
		case "isclosed":
			// isclosed(ch): has the channel been closed?
			x.comp("Chan_closed", "(Array Int Bool)")
			setT(sx("select", f.mem[0].heapOf("Chan_closed", "(Array Int Bool)"), args[0][0].T), sx("select", f.mem[1].heapOf("Chan_closed", "(Array Int Bool)"), args[0][1].T))
			return
		case "visited":
			// visited(k): has the enclosing range-over-map loop (key type of k) produced key k?
			ks := x.X.sortOf(in.Call.Args[0].Type())
			vcn, vsort := "Ghost_vis_"+sanitize(ks), "(Array "+ks+" Bool)"
			x.comp(vcn, vsort)
			setT(sx("select", f.mem[0].heapOf(vcn, vsort), args[0][0].T), sx("select", f.mem[1].heapOf(vcn, vsort), args[0][1].T))
			return
		case "sameslice", "samemap", "sameval":
			setT(eq(args[0][0].T, args[1][0].T), eq(args[0][1].T, args[1][1].T))
			return
		case "str":
			var r [2]Term
			for m := 0; m < 2; m++ {
				et := types.Typ[types.Uint8]
				c, srt := x.elemComp(et)
				x.comp(c, srt)
				a := args[0][m].T
				r[m] = sx("strofbytes", sx("select", f.mem[m].heapOf(c, srt), sx("sbase", a)), sx("soff", a), sx("sllen", a))
			}
			setT(r[0], r[1])
			return
		case "typeis":
			targs := callee.TypeArgs()
			if len(targs) == 1 {
				id := fmt.Sprint(x.X.typeID(targs[0]))
				setT(eq(sx("itype", args[0][0].T), id), eq(sx("itype", args[0][1].T), id))
				return
			}
		case "fresh":
			// fresh(p): p is a ref allocated after function entry
			p := args[0][0].T
			if _, isSlice := in.Call.Args[0].Type().Underlying().(*types.Slice); isSlice {
				p = sx("sbase", p)
			}
			setT(sx(">", p, x.entry.allocTop), "false")
			return
		}
		if strings.HasPrefix(name, "ghost_") {
			var r [2]Term
			for m := 0; m < 2; m++ {
				rt := callee.Signature.Results().At(0).Type()
				c := "Ghost_" + strings.TrimPrefix(name, "ghost_")
				srt := "(Array Int " + x.X.sortOf(rt) + ")"
				x.comp(c, srt)
				r[m] = sx("select", f.mem[m].heapOf(c, srt), args[0][m].T)
			}
			setT(r[0], r[1])
			return
		}
		// user spec function: inline
		setBoth(x.evalPure(callee, args, nil, [2]memView{f.mem[0], f.mem[1]}, f.depth+1))
		return
	}
	if d, ok := x.externPure(f, callee, in, args); ok {
		setBoth(d)
		return
	}
	if fc := x.L.FuncCon[funcKey(callee)]; fc != nil && fc.Pure {
		var r [2]Term
		okAll := true
		for m := 0; m < 2; m++ {
			var av []Val
			for _, a := range args {
				av = append(av, a[m])
			}
			t, ok := x.pureFuncApp(callee, av)
			if !ok {
				okAll = false
			}
			r[m] = t
		}
		if okAll {
			setT(r[0], r[1])
			return
		}
	}
	// functions of the package used in specifications: inline when small and pure
	if len(callee.Blocks) > 0 && callee.Pkg != nil && x.L.SSAPkgs[callee.Pkg.Pkg.Path()] != nil {
		if fc := x.L.FuncCon[funcKey(callee)]; fc == nil || fc.Inline {
			setBoth(x.evalPure(callee, args, nil, [2]memView{f.mem[0], f.mem[1]}, f.depth+1))
			return
		}
	}
	x.abstract("call in specification not modelled: " + callee.String())
	h := x.havocPure("call", x.X.sortOf(in.Type()))
	setT(h, h)
}

func (x *Exec) unboxAny(orig ssa.Value, v Val) Term {
	if mi, ok := orig.(*ssa.MakeInterface); ok && !types.IsInterface(mi.X.Type()) {
		return x.unbox(mi.X.Type(), v.T)
	}
	return v.T
}

func (f *frame) builtinPure(b *ssa.Builtin, in ssa.Value, av []Val) Term {
	x := f.x
	call := in.(ssa.CallInstruction).Common()
	switch b.Name() {
	case "ssa:deferstack":
		return "0"
	case "len":
		t := call.Args[0].Type()
		switch u := t.Underlying().(type) {
		case *types.Basic:
			return f.fromInt(sx("slen", av[0].T), in.Type())
		case *types.Slice:
			return f.fromInt(sx("sllen", av[0].T), in.Type())
		case *types.Array:
			return f.fromInt(fmt.Sprint(u.Len()), in.Type())
		case *types.Pointer:
			if arr, ok := u.Elem().Underlying().(*types.Array); ok {
				return f.fromInt(fmt.Sprint(arr.Len()), in.Type())
			}
		case *types.Map:
			_, _, ln, _, _ := x.mapComps(u)
			return f.fromInt(ite(eq(av[0].T, "0"), "0", sx("select", f.m().heapOf(ln, "(Array Int Int)"), av[0].T)), in.Type())
		case *types.Chan:
			x.comp("Chan_len", "(Array Int Int)")
			return f.fromInt(sx("select", f.m().heapOf("Chan_len", "(Array Int Int)"), av[0].T), in.Type())
		}
	case "cap":
		switch u := call.Args[0].Type().Underlying().(type) {
		case *types.Slice:
			return f.fromInt(sx("scap", av[0].T), in.Type())
		case *types.Array:
			return f.fromInt(fmt.Sprint(u.Len()), in.Type())
		case *types.Chan:
			x.comp("Chan_cap", "(Array Int Int)")
			return f.fromInt(sx("select", f.m().heapOf("Chan_cap", "(Array Int Int)"), av[0].T), in.Type())
		}
	case "min", "max":
		t := av[0].T
		for _, a := range av[1:] {
			var c Term
			if b.Name() == "min" {
				c = x.binop(tokLSS, a.T, t, in.Type(), in.Type(), types.Typ[types.Bool])
			} else {
				c = x.binop(tokGTR, a.T, t, in.Type(), in.Type(), types.Typ[types.Bool])
			}
			t = ite(c, a.T, t)
		}
		return t
	}
	x.abstract("builtin " + b.Name())
	return x.havocPure("builtin", x.X.sortOf(in.Type()))
}

// psumTerm builds psum!k(n) for the summand function fv over slice s in memory
// view m, and emits the one-step unfoldings around n (valid instances of the
// recursive definition; no quantified axiom, hence no matching loop).
func (x *Exec) psumTerm(f *frame, callee *ssa.Function, fv Val, s Term, n Term, m int) Term {
	if fv.Cl == nil {
		x.errorf("psum: summand must be a named spec function")
		return "0"
	}
	sl, ok := callee.Signature.Params().At(1).Type().Underlying().(*types.Slice)
	if !ok {
		x.errorf("psum: second argument must be a slice")
		return "0"
	}
	et := sl.Elem()
	elemAt := func(i Term) Val {
		pos := sx("+", sx("soff", s), i)
		if isStruct(et) {
			return Val{T: sx("elemref", sx("sbase", s), pos)}
		}
		c, srt := x.elemComp(et)
		x.comp(c, srt)
		return Val{T: sx("select", sx("select", f.mem[m].heapOf(c, srt), sx("sbase", s)), pos)}
	}
	body := func(i Term) Term {
		v := elemAt(i)
		d := x.evalPure(fv.Cl.Fn, []dual{{v, v}}, fv.Cl.Bindings, [2]memView{f.mem[m], f.mem[m]}, f.depth+1)
		return d[0].T
	}
	key := "psum|" + body("q!key")
	if x.psums == nil {
		x.psums = map[string]string{}
	}
	fn, ok := x.psums[key]
	if !ok {
		fn = x.fresh("psum")
		x.psums[key] = fn
		x.emit("(declare-fun %s (Int) Int)", fn)
		x.emit("(assert (= (%s 0) 0))", fn)
		x.assumed["psum: finite sums are an uninterpreted function constrained by unfoldings of its recursive definition emitted at each use"] = false
	}
	if !strings.Contains(n, "q!") {
		ukey := fn + "|" + n
		if !x.psumUnfolded[ukey] {
			if x.psumUnfolded == nil {
				x.psumUnfolded = map[string]bool{}
			}
			x.psumUnfolded[ukey] = true
			x.emit("(assert (=> (> %s 0) (= (%s %s) (+ (%s (- %s 1)) %s))))", n, fn, n, fn, n, body(sx("-", n, "1")))
			x.emit("(assert (=> (>= %s 0) (= (%s (+ %s 1)) (+ (%s %s) %s))))", n, fn, n, fn, n, body(n))
		}
	}
	return sx(fn, n)
}

package main

// Package-level error variables of the module that are written only by the
// package initialiser (var errX = status.Error(...)) are constants for every
// function under contract: no call can change them. This is *checked* on the
// SSA of the declaring package on every run, not assumed: the variable must be
// unexported (so no other package can name it), and every use of it in the
// package must be a plain load, except stores in the synthetic package
// initialiser. One store elsewhere, or one place where its address escapes
// (passed to a call, stored, captured by reference), and it is treated as an
// ordinary global again (havocked by every call without a frame).

import (
	"go/types"
	"sync"

	"golang.org/x/tools/go/ssa"
)

var initOnlyMu sync.Mutex
var initOnlyCache = map[*ssa.Package]map[*ssa.Global]bool{} // pkg -> globals with a disqualifying use

func initOnlyGlobal(g *ssa.Global) bool {
	if g.Pkg == nil || g.Object() == nil || g.Object().Exported() {
		return false
	}
	initOnlyMu.Lock()
	defer initOnlyMu.Unlock()
	bad, ok := initOnlyCache[g.Pkg]
	if !ok {
		bad = scanGlobalUses(g.Pkg)
		initOnlyCache[g.Pkg] = bad
	}
	return !bad[g]
}

func scanGlobalUses(pkg *ssa.Package) map[*ssa.Global]bool {
	bad := map[*ssa.Global]bool{}
	seen := map[*ssa.Function]bool{}
	var visit func(fn *ssa.Function)
	visit = func(fn *ssa.Function) {
		if fn == nil || seen[fn] {
			return
		}
		seen[fn] = true
		isInit := fn.Name() == "init" && fn.Synthetic != "" && fn.Parent() == nil
		for _, b := range fn.Blocks {
			for _, ins := range b.Instrs {
				for _, op := range ins.Operands(nil) {
					g, ok := (*op).(*ssa.Global)
					if !ok || g.Pkg != pkg {
						continue
					}
					switch i := ins.(type) {
					case *ssa.UnOp:
						// *g: a load
						continue
					case *ssa.Store:
						if i.Addr == g && i.Val != ssa.Value(g) && isInit {
							continue
						}
					}
					bad[g] = true
				}
			}
		}
		for _, a := range fn.AnonFuncs {
			visit(a)
		}
	}
	for _, m := range pkg.Members {
		switch m := m.(type) {
		case *ssa.Function:
			visit(m)
		case *ssa.Type:
			// declared methods (value and pointer receivers, generic or not)
			if named, ok := types.Unalias(m.Type()).(*types.Named); ok {
				for i := 0; i < named.NumMethods(); i++ {
					visit(pkg.Prog.FuncValue(named.Method(i)))
				}
			}
		}
	}
	return bad
}

package main

import (
	"fmt"
	"go/types"

	"golang.org/x/tools/go/ssa"
)

// Interface methods assumed to be pure getters: calling them twice on the same
// receiver (with the same arguments) gives the same result and changes nothing.
// They are modelled as uninterpreted functions of the receiver. Each use is
// listed in the evidence as an assumption.
var pureIfaceMethods = map[string]bool{
	"GetCommonAuthInfo":        true, // credentials.AuthInfo implementations: returns the embedded CommonAuthInfo
	"RequireTransportSecurity": true, // credentials.PerRPCCredentials: a constant property of the credential
	"Info":                     true, // credentials.TransportCredentials.Info(): static protocol description
	"TransportCredentials":     true, // credentials.Bundle: the bundle's transport credentials
	"isThrottled":              true, // transport.cbItem: a constant of the item's type (all implementations return a literal)
	// by full name:
	"(google.golang.org/grpc/mem.Buffer).Len":          true, // length of a live buffer: constant between Ref/Free
	"(google.golang.org/grpc/mem.Buffer).ReadOnlyData": true, // the buffer's bytes (same slice for a live buffer)
}

func (x *Exec) pureIfaceCall(c *ssa.CallCommon, recv Term, args []Val) (Val, bool) {
	name := c.Method.Name()
	if !(pureIfaceMethods[name] || pureIfaceMethods[c.Method.FullName()]) || len(args) != 0 {
		return Val{}, false
	}
	sig := c.Signature()
	if sig.Results().Len() != 1 {
		return Val{}, false
	}
	rt := sig.Results().At(0).Type()
	// keyed by method name and result sort (the same getter reached through a named and an
	// anonymous interface type is the same function)
	fn := "im_" + name + "_" + sanitize(x.X.sortOf(rt))
	x.X.declare(fn, fmt.Sprintf("(declare-fun %s (Int) %s)", fn, x.X.sortOf(rt)))
	x.assumed[fmt.Sprintf("interface method %s is a pure getter (same receiver, same result; no effects)", c.Method.FullName())] = true
	return Val{T: sx(fn, recv)}, true
}

func ifaceMethodSetName(t types.Type) string {
	it, ok := t.Underlying().(*types.Interface)
	if !ok {
		return sanitize(typeShort(t))
	}
	s := ""
	for i := 0; i < it.NumMethods(); i++ {
		s += "_" + it.Method(i).Name()
	}
	if s == "" {
		return "_any"
	}
	return s
}

package main

import (
	"fmt"
	"go/types"

	"golang.org/x/tools/go/ssa"
)

// appendOne models append(s, v) (a single appended element, the common case)
// without per-call quantifiers: in place when len < cap, otherwise a fresh
// backing array that is the old one shifted to offset 0 (one global axiom for
// the shift function per element sort) with v stored at index len.
func (x *Exec) appendOne(f *frame, in ssa.Value, args []Val, et types.Type, cn, srt string, h Term) Val {
	st := f.st
	s, a := args[0].T, args[1].T
	es := x.X.sortOf(et)
	shift := "shiftarr_" + sanitize(es)
	x.X.declare(shift, fmt.Sprintf("(declare-fun %s ((Array Int %s) Int) (Array Int %s))\n(assert (forall ((a (Array Int %s)) (k Int) (j Int)) (! (= (select (%s a k) j) (select a (+ j k))) :pattern ((select (%s a k) j)))))", shift, es, es, es, shift, shift))
	elem := x.define(x.fresh("appelem"), es, sx("select", sx("select", h, sx("sbase", a)), sx("soff", a)))
	ln := sx("sllen", s)
	fits := x.define(x.fresh("appfits"), "Bool", sx("<", ln, sx("scap", s)))
	newRef := x.define(x.fresh("new"), "Int", sx("+", st.allocTop, "1"))
	st.allocTop = newRef
	ncap := x.havocConst("appcap", "Int")
	x.assume(st, and(sx(">", ncap, ln), sx("<=", ncap, "281474976710656")))
	res := x.define(x.fresh("app"), "Slice", ite(fits,
		sx("mkslice", sx("sbase", s), sx("soff", s), sx("+", ln, "1"), sx("scap", s)),
		sx("mkslice", newRef, "0", sx("+", ln, "1"), ncap)))
	oldArr := sx("select", h, sx("sbase", s))
	arr := ite(fits,
		sx("store", oldArr, sx("+", sx("soff", s), ln), elem),
		sx("store", sx(shift, oldArr, sx("soff", s)), ln, elem))
	if x.fc != nil && x.fc.HasMod {
		x.frameCheck(st, &Addr{Kind: aElem, Comp: cn, Ref: sx("sbase", res)}, in.Pos())
	}
	st.heap[cn] = x.define(x.fresh(cn), srt, sx("store", h, sx("sbase", res), arr))
	return Val{T: res}
}

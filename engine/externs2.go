package main

import (
	"fmt"
	"go/token"
	"go/types"
	"regexp"
	"strings"

	"golang.org/x/tools/go/ssa"
)

var randVarRe = regexp.MustCompile(`^(?i)rand(Int64n|Int63n|Intn|IntN|Int64N|Int32N|Int31n|Uint32N|Uint64N)$`)

// funcVarCall: calls through package-level function variables that the
// repository uses as test seams for the random source.
func (x *Exec) funcVarCall(f *frame, in ssa.Instruction, c *ssa.CallCommon, args []Val) (Val, bool) {
	st := f.st
	ld, ok := c.Value.(*ssa.UnOp)
	if !ok || ld.Op != token.MUL {
		return Val{}, false
	}
	// `opt purecalls <field>`: calls through the function value held in that struct field
	// have no effect on the modelled heap; their result is arbitrary (recorded as the ghost
	// value lastval("<field>")). Stated assumption about the closure stored there.
	if fa, ok := ld.X.(*ssa.FieldAddr); ok && x.fc != nil {
		fname := deref(fa.X.Type()).Underlying().(*types.Struct).Field(fa.Field).Name()
		for _, pf := range strings.Fields(x.fc.Opts["purecalls"]) {
			if pf == fname && c.Signature().Results().Len() == 0 {
				x.assumed[fmt.Sprintf("%s: calls through the function value in field %q have no effect on the modelled state", x.short, fname)] = true
				return Val{}, true
			}
			if pf == fname && c.Signature().Results().Len() > 1 {
				x.assumed[fmt.Sprintf("%s: calls through the function value in field %q are effect-free on the modelled state (arbitrary results)", x.short, fname)] = true
				return x.resultVal(st, c.Signature(), "fv_"+fname), true
			}
			if pf == fname && c.Signature().Results().Len() == 1 {
				rt := c.Signature().Results().At(0).Type()
				r := x.havocValue(st, rt, "fv_"+fname)
				cn := "Ghost_last_" + fname
				x.comp(cn, x.X.sortOf(rt))
				st.heap[cn] = r
				x.assumed[fmt.Sprintf("%s: calls through the function value in field %q are effect-free (arbitrary result)", x.short, fname)] = true
				return Val{T: r}, true
			}
		}
	}
	// `opt purecalls <name>` for a function-valued parameter or local of that name
	if al, ok := ld.X.(*ssa.Alloc); ok && x.fc != nil && al.Comment != "" {
		for _, pf := range strings.Fields(x.fc.Opts["purecalls"]) {
			if pf != al.Comment {
				continue
			}
			x.assumed[fmt.Sprintf("%s: calls through the function value %q do not change the state this contract speaks about (arbitrary result)", x.short, al.Comment)] = true
			return x.resultVal(st, c.Signature(), "fv_"+al.Comment), true
		}
	}
	g, ok := ld.X.(*ssa.Global)
	if !ok {
		return Val{}, false
	}
	// test seams for the clock: package variables `now = time.Now` (func() time.Time) and
	// `afterFunc = time.AfterFunc` (func(time.Duration, func()) *time.Timer)
	if sig := c.Signature(); sig.Results().Len() == 1 {
		rt := sig.Results().At(0).Type()
		if sig.Params().Len() == 0 && rt.String() == "time.Time" {
			return x.clockValue(st, rt, g.Name()+" (package variable bound to time.Now)"), true
		}
		if sig.Params().Len() == 0 && rt.String() == "float64" && strings.Contains(strings.ToLower(g.Name()), "rand") {
			x.assumed[fmt.Sprintf("extern %s (package variable bound to rand.Float64): any value in [0,1)", g.Name())] = true
			return x.randFloat64(st), true
		}
		if sig.Params().Len() == 2 && (rt.String() == "*time.Timer" || strings.HasSuffix(g.Name(), "AfterFunc")) && sig.Params().At(0).Type().String() == "time.Duration" {
			x.assumed[fmt.Sprintf("extern %s (package variable bound to time.AfterFunc): registers a callback, no synchronous effect on modelled state", g.Name())] = true
			return Val{T: x.havocValue(st, rt, "timer")}, true
		}
	}
	if randVarRe.MatchString(g.Name()) && len(args) == 1 {
		rt := c.Signature().Results().At(0).Type()
		zero := x.X.zero(rt)
		// rand.Int64N(n) panics for n <= 0
		x.safety(st, "panic", x.binop(token.GTR, args[0].T, zero, rt, rt, types.Typ[types.Bool]), in.Pos())
		r := x.havocValue(st, rt, "rand")
		x.assume(st, and(x.binop(token.GEQ, r, zero, rt, rt, types.Typ[types.Bool]), x.binop(token.LSS, r, args[0].T, rt, rt, types.Typ[types.Bool])))
		// path-sensitive "last draw" (a ghost global merged at joins like any heap component)
		x.comp("Ghost_lastrand", x.X.sortOf(rt))
		st.heap["Ghost_lastrand"] = r
		x.lastRand = r
		x.assumed[fmt.Sprintf("extern %s (package variable bound to math/rand): any r with 0 <= r < n; panics for n <= 0 (proof obligation at the call)", g.Name())] = true
		return Val{T: r}, true
	}
	return Val{}, false
}

// sortSearch: sort.Search(n, f) returns the least i in [0,n] with f(i), for a
// predicate that is false then true; stated without the monotonicity premise as
//   0 <= i <= n, (i < n => f(i)), (i > 0 => !f(i-1)), and forall j < i: !f(j) when f is monotone
// (the last part is what binary search needs monotonicity for; only the first three
// facts, which hold for any f for the index binary search returns, are assumed).
func (x *Exec) sortSearch(f *frame, in ssa.Instruction, args []Val) (Val, bool) {
	st := f.st
	cl := args[1].Cl
	if cl == nil {
		return Val{}, false
	}
	n := args[0].T
	x.safety(st, "panic", sx(">=", n, "0"), in.Pos())
	i := x.havocConst("search", "Int")
	app := func(j Term) Term {
		d := x.evalPure(cl.Fn, []dual{dualOf(Val{T: j})}, cl.Bindings, [2]memView{stateView{x, st}, stateView{x, st}}, 1)
		return d[0].T
	}
	x.assume(st, and(sx("<=", "0", i), sx("<=", i, n)))
	x.assume(st, implies(sx("<", i, n), app(i)))
	x.assume(st, implies(sx(">", i, "0"), not(app(sx("-", i, "1")))))
	x.assumed["extern sort.Search(n,f): returns i in [0,n] with (i<n => f(i)) and (i>0 => !f(i-1)) — true of binary search for every predicate (it only returns an index at a false->true boundary, 0 if f(0), or n if !f(n-1))"] = true
	return Val{T: i}, true
}

package main

// Inlining of small loop-free callees without contract into the function under
// contract (constructors, setters, tiny helpers with side effects). The callee's
// CFG is executed with the same machinery as the function itself; its safety
// obligations become obligations of the caller. Listed in the evidence.

import (
	"fmt"
	"strings"

	"golang.org/x/tools/go/ssa"
)

const inlineMaxInstrs = 60

func (x *Exec) inlineable(callee *ssa.Function) bool {
	if callee == nil || x.inlineDepth >= 3 {
		return false
	}
	if callee.Pkg != nil {
		callee.Pkg.Build()
	}
	if len(callee.Blocks) == 0 || callee == x.fn {
		return false
	}
	for _, a := range x.inlineStack {
		if a == callee {
			return false
		}
	}
	pk := pkgPathOf(callee)
	if !strings.HasPrefix(pk, "google.golang.org/grpc") && !strings.HasPrefix(pk, "google.golang.org/genproto") {
		return false
	}
	n := 0
	for _, b := range callee.Blocks {
		for _, s := range b.Succs {
			if s.Dominates(b) {
				return false // loop
			}
		}
		for _, in := range b.Instrs {
			switch in.(type) {
			case *ssa.DebugRef:
				continue
			case *ssa.Defer, *ssa.RunDefers, *ssa.Go, *ssa.Select, *ssa.Send:
				if _, isRD := in.(*ssa.RunDefers); isRD {
					continue
				}
				return false
			}
			n++
		}
	}
	for _, b := range callee.Blocks {
		for _, in := range b.Instrs {
			if _, ok := in.(*ssa.Defer); ok {
				return false
			}
		}
	}
	return n <= inlineMaxInstrs
}

// inlineCall executes callee's body on the caller's state f.st and returns its result.
func (x *Exec) inlineCall(f *frame, callee *ssa.Function, args []Val, fvs []Val) Val {
	st := f.st
	x.inlineDepth++
	x.inlineStack = append(x.inlineStack, callee)
	defer func() {
		x.inlineDepth--
		x.inlineStack = x.inlineStack[:len(x.inlineStack)-1]
	}()
	x.assumed["inlined callee body: "+callee.String()] = false
	x.inlined[callee.String()] = true
	for i, p := range callee.Params {
		if i < len(args) {
			x.vals[p] = args[i]
		}
	}
	for i, fv := range callee.FreeVars {
		if i < len(fvs) {
			x.vals[fv] = fvs[i]
		}
	}
	// reverse postorder
	var order []*ssa.BasicBlock
	seen := map[*ssa.BasicBlock]bool{}
	var dfs func(b *ssa.BasicBlock)
	dfs = func(b *ssa.BasicBlock) {
		seen[b] = true
		for _, s := range b.Succs {
			if !seen[s] {
				dfs(s)
			}
		}
		order = append(order, b)
	}
	dfs(callee.Blocks[0])
	for i, j := 0, len(order)-1; i < j; i, j = i+1, j-1 {
		order[i], order[j] = order[j], order[i]
	}
	edgeCond := map[[2]*ssa.BasicBlock]Term{}
	exitSt := map[*ssa.BasicBlock]*State{}
	type retInfo struct {
		cond Term
		st   *State
		vals []Val
	}
	var rets []retInfo
	tag := x.fresh("inl")
	for _, b := range order {
		var bst *State
		var edges []inEdge
		if b == callee.Blocks[0] {
			bst = st.clone()
		} else {
			for _, p := range b.Preds {
				ps, ok := exitSt[p]
				if !ok {
					continue
				}
				cond, ok := edgeCond[[2]*ssa.BasicBlock{p, b}]
				if !ok {
					continue
				}
				edges = append(edges, inEdge{cond: cond, st: ps, from: p})
			}
			bst = x.mergeStates(edges, fmt.Sprintf("%s_b%d", tag, b.Index))
		}
		f2 := &frame{x: x, fn: callee, st: bst, fvs: fvs}
		f2.mem[0] = stateView{x, bst}
		f2.mem[1] = stateView{x, x.entry}
		for _, in := range b.Instrs {
			switch in := in.(type) {
			case *ssa.Phi:
				var vs []Val
				var es []inEdge
				for _, e := range edges {
					for i, p := range b.Preds {
						if p == e.from {
							vs = append(vs, x.val(in.Edges[i]))
							es = append(es, e)
						}
					}
				}
				if len(vs) == 0 {
					x.vals[in] = Val{T: x.X.zero(in.Type())}
				} else {
					x.vals[in] = x.mergeVals(es, vs, in.Type(), tag+in.Name())
				}
			case *ssa.If:
				c := x.val(in.Cond).T
				edgeCond[[2]*ssa.BasicBlock{b, b.Succs[0]}] = x.define(x.fresh("edge"), "Bool", and(bst.live, c))
				edgeCond[[2]*ssa.BasicBlock{b, b.Succs[1]}] = x.define(x.fresh("edge"), "Bool", and(bst.live, not(c)))
			case *ssa.Jump:
				edgeCond[[2]*ssa.BasicBlock{b, b.Succs[0]}] = bst.live
			case *ssa.Return:
				var vs []Val
				for _, r := range in.Results {
					vs = append(vs, x.val(r))
				}
				rets = append(rets, retInfo{cond: bst.live, st: bst, vals: vs})
			case *ssa.Panic:
				if x.fc == nil || x.fc.Opts["maypanic"] == "" {
					x.safety(bst, "panic", "false", in.Pos())
				}
			case *ssa.RunDefers:
				// no defers in an inlineable callee
			default:
				x.step(f2, in)
			}
		}
		exitSt[b] = bst
	}
	if len(rets) == 0 {
		// the callee never returns (always panics): the caller's path ends here
		x.assume(st, "false")
		return x.resultVal(st, callee.Signature, "noret")
	}
	var edges []inEdge
	for _, r := range rets {
		edges = append(edges, inEdge{cond: r.cond, st: r.st})
	}
	exit := x.mergeStates(edges, tag+"_exit")
	nres := callee.Signature.Results().Len()
	var results []Val
	for k := 0; k < nres; k++ {
		var vs []Val
		for _, r := range rets {
			vs = append(vs, r.vals[k])
		}
		results = append(results, x.mergeVals(edges, vs, callee.Signature.Results().At(k).Type(), fmt.Sprintf("%s_ret%d", tag, k)))
	}
	// continue in the caller with the callee's exit state
	st.live, st.cells, st.heap, st.allocTop = exit.live, exit.cells, exit.heap, exit.allocTop
	x.skipRecouple = len(x.aliases) > 0
	switch len(results) {
	case 0:
		return Val{}
	case 1:
		return results[0]
	}
	return Val{Tu: results}
}

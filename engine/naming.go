package main

import (
	"regexp"
	"fmt"
	"go/token"
	"path/filepath"

	"golang.org/x/tools/go/ssa"
)

// valName is the SMT name of an SSA value: values of the function under
// contract keep stable names; values of inlined callees and nested function
// bodies get fresh ones (the same callee may be executed more than once).
func (x *Exec) valName(v ssa.Value) string {
	p := v.Parent()
	if p == nil || p == x.fn {
		return x.fn.Name() + "_" + v.Name()
	}
	if x.inlineDepth == 0 {
		return x.fn.Name() + "_" + v.Name()
	}
	return x.fresh(sanitize(p.Name()) + "_" + v.Name())
}

// shortPos: file:line of a position, for messages.
func (x *Exec) shortPos(p token.Pos) string {
	if !p.IsValid() {
		return "?"
	}
	pp := x.L.Fset.Position(p)
	return fmt.Sprintf("%s:%d", filepath.Base(pp.Filename), pp.Line)
}

// templateOnly: per replay template, the obligation-name fragments it covers (//gcv:only).
var templateOnly = map[string][]string{}

// pathGhostRe: clause text that mentions a path ghost (call counters, last results, last
// random draw, atomic-change ghosts): facts about the path of the function under
// verification, never exported to callers.
var pathGhostRe = regexp.MustCompile(`\b(ncalls|lastret|lastval|lastrand|nchanges|lastold|lastnew)\(`)

package main

// Replay of solver counterexamples against the real code: the model values of
// the inputs named by a per-function template are read back from the solver
// with (get-value ...), a test is generated from the template and run inside
// the package through `go test -overlay` (nothing is written to /repo).

import (
	"bytes"
	"encoding/json"
	"fmt"
	"math/big"
	"os"
	"os/exec"
	"path/filepath"
	"strconv"
	"strings"
	"text/template"
	"time"
)

type replayInput struct {
	Name, Kind, Term string
}

func parseTemplate(path string) (pkgDir string, inputs []replayInput, body string, err error) {
	data, err := os.ReadFile(path)
	if err != nil {
		return "", nil, "", err
	}
	var rest []string
	for _, ln := range strings.Split(string(data), "\n") {
		switch {
		case strings.HasPrefix(ln, "//gcv:pkg "):
			pkgDir = strings.TrimSpace(strings.TrimPrefix(ln, "//gcv:pkg "))
		case strings.HasPrefix(ln, "//gcv:only "):
			// the template replays only obligations whose name contains one of the listed fragments
			templateOnly[path] = append(templateOnly[path], strings.Fields(strings.TrimPrefix(ln, "//gcv:only "))...)
		case strings.HasPrefix(ln, "//gcv:input "):
			f := strings.SplitN(strings.TrimSpace(strings.TrimPrefix(ln, "//gcv:input ")), " ", 3)
			if len(f) == 3 {
				inputs = append(inputs, replayInput{f[0], f[1], f[2]})
			}
		default:
			rest = append(rest, ln)
		}
	}
	return pkgDir, inputs, strings.Join(rest, "\n"), nil
}

const strProbe = 48

func solverArgv(name, file string) []string {
	switch name {
	case "z3-4.8.12":
		return []string{"z3", "-T:30", file}
	case "z3-5.1.0":
		return []string{"z3-new", "-T:30", file}
	}
	return []string{"cvc5", "--tlimit=30000", file}
}

// getValues re-runs the solver that answered sat, asking for the given terms.
func getValues(r *SolveResult, terms []string) (map[string]string, string, error) {
	data, err := os.ReadFile(r.File)
	if err != nil {
		return nil, "", err
	}
	text := strings.Replace(string(data), "(get-model)", "", 1)
	var b strings.Builder
	b.WriteString(text)
	for _, t := range terms {
		fmt.Fprintf(&b, "(get-value (%s))\n", t)
	}
	f := r.File + ".values.smt2"
	os.WriteFile(f, []byte(b.String()), 0o644)
	try := []string{r.Solver, "z3-5.1.0", "z3-4.8.12", "cvc5-1.0"}
	var last string
	for _, s := range try {
		argv := solverArgv(s, f)
		cmd := exec.Command(argv[0], argv[1:]...)
		var out bytes.Buffer
		cmd.Stdout = &out
		cmd.Stderr = &out
		cmd.Run()
		last = out.String()
		lines := strings.Split(strings.TrimSpace(last), "\n")
		if len(lines) == 0 || strings.TrimSpace(lines[0]) != "sat" {
			continue
		}
		vals := map[string]string{}
		// each get-value answer: ((term value))
		joined := strings.Join(lines[1:], " ")
		answers := splitTop(joined)
		if len(answers) < len(terms) {
			continue
		}
		for i, t := range terms {
			a := strings.TrimSpace(answers[i])
			// strip outer "((" ... "))"
			a = strings.TrimSuffix(strings.TrimPrefix(a, "("), ")")
			a = strings.TrimSpace(a)
			a = strings.TrimSuffix(strings.TrimPrefix(a, "("), ")")
			// a = "term value": value is the last top-level element
			parts := splitTop(a)
			if len(parts) >= 2 {
				vals[t] = strings.TrimSpace(parts[len(parts)-1])
			}
		}
		return vals, last, nil
	}
	return nil, last, fmt.Errorf("no solver returned values")
}

// splitTop splits a string into top-level s-expressions / atoms.
func splitTop(s string) []string {
	var out []string
	d := 0
	start := -1
	for i := 0; i < len(s); i++ {
		c := s[i]
		switch {
		case c == '(':
			if d == 0 && start < 0 {
				start = i
			}
			d++
		case c == ')':
			d--
			if d == 0 && start >= 0 {
				out = append(out, s[start:i+1])
				start = -1
			}
		case c == ' ' || c == '\n' || c == '\t':
			if d == 0 && start >= 0 {
				out = append(out, s[start:i])
				start = -1
			}
		default:
			if d == 0 && start < 0 {
				start = i
			}
		}
	}
	if start >= 0 {
		out = append(out, s[start:])
	}
	return out
}

func smtInt(v string) (*big.Int, bool) {
	v = strings.TrimSpace(v)
	if strings.HasPrefix(v, "(-") {
		inner := strings.TrimSpace(strings.TrimSuffix(strings.TrimPrefix(v, "(-"), ")"))
		n, ok := smtInt(inner)
		if !ok {
			return nil, false
		}
		return n.Neg(n), true
	}
	if strings.HasPrefix(v, "#x") {
		n, ok := new(big.Int).SetString(v[2:], 16)
		return n, ok
	}
	if strings.HasPrefix(v, "#b") {
		n, ok := new(big.Int).SetString(v[2:], 2)
		return n, ok
	}
	n, ok := new(big.Int).SetString(v, 10)
	return n, ok
}

func replayViolation(id, name, why string, r *SolveResult, repo string) (string, bool) {
	if r == nil {
		return writeReplay(id, name, why, r, "no model available (solver answer: not sat): no executable failing input"), false
	}
	tpl := filepath.Join(verifDir, "replay_templates", sanitize(r.Func)+".tmpl")
	delete(templateOnly, tpl)
	pkgDir, inputs, body, err := parseTemplate(tpl)
	if r.Result != "sat" && (err != nil || len(inputs) > 0) {
		// without a model only a scenario template (one that needs no model values: a fixed
		// sequence of operations on the real code that exhibits the failure the obligation
		// guards against) can be run
		return writeReplay(id, name, why, r, "no model available (solver answer: not sat): no executable failing input"), false
	}
	if only := templateOnly[tpl]; err == nil && len(only) > 0 {
		applies := false
		for _, frag := range only {
			if strings.Contains(name, frag) {
				applies = true
			}
		}
		if !applies {
			err = fmt.Errorf("template does not cover this obligation")
		}
	}
	if err != nil {
		return writeReplay(id, name, why, r, "no replay template for "+r.Func+" (inputs cannot be built in a unit test): no executable failing input"), false
	}
	for i := range inputs {
		for k, v := range r.Syms {
			inputs[i].Term = strings.ReplaceAll(inputs[i].Term, "$"+k, v)
		}
	}
	var terms []string
	for _, in := range inputs {
		switch in.Kind {
		case "string":
			terms = append(terms, "(slen "+in.Term+")")
			for i := 0; i < strProbe; i++ {
				terms = append(terms, fmt.Sprintf("(select (sdata %s) %d)", in.Term, i))
			}
		default:
			terms = append(terms, in.Term)
		}
	}
	var vals map[string]string
	var sout string
	if len(terms) > 0 {
		vals, sout, err = getValues(r, terms)
	}
	if err != nil {
		return writeReplay(id, name, why, r, "could not read model values back: "+err.Error()+"\n"+truncate(sout, 2000)), false
	}
	data := map[string]string{"Obligation": name}
	var desc strings.Builder
	for _, in := range inputs {
		switch in.Kind {
		case "string":
			n, ok := smtInt(vals["(slen "+in.Term+")"])
			if !ok || n.Sign() < 0 || n.Cmp(big.NewInt(strProbe)) > 0 {
				return writeReplay(id, name, why, r, fmt.Sprintf("model string %s has length %v: outside what the replay builds", in.Name, vals["(slen "+in.Term+")"])), false
			}
			var bs []byte
			for i := 0; i < int(n.Int64()); i++ {
				c, ok := smtInt(vals[fmt.Sprintf("(select (sdata %s) %d)", in.Term, i)])
				if !ok {
					c = big.NewInt(63)
				}
				bs = append(bs, byte(c.Int64()))
			}
			data[in.Name] = strconv.Quote(string(bs))
		case "bool":
			data[in.Name] = strings.TrimSpace(vals[in.Term])
		case "float64":
			data[in.Name] = fpToGo(vals[in.Term])
		default:
			n, ok := smtInt(vals[in.Term])
			if !ok {
				return writeReplay(id, name, why, r, fmt.Sprintf("model value of %s not an integer: %q", in.Name, vals[in.Term])), false
			}
			data[in.Name] = n.String()
		}
		fmt.Fprintf(&desc, "  %s = %s\n", in.Name, data[in.Name])
	}
	t, err := template.New("replay").Parse(body)
	if err != nil {
		return writeReplay(id, name, why, r, "bad replay template: "+err.Error()), false
	}
	var src bytes.Buffer
	if err := t.Execute(&src, data); err != nil {
		return writeReplay(id, name, why, r, "replay template execution: "+err.Error()), false
	}
	tmp, _ := os.MkdirTemp("", "gcv-replay-")
	defer os.RemoveAll(tmp)
	testFile := filepath.Join(tmp, "zz_gcv_replay_test.go")
	os.WriteFile(testFile, src.Bytes(), 0o644)
	ov := map[string]any{"Replace": map[string]string{filepath.Join(repo, pkgDir, "zz_gcv_replay_test.go"): testFile}}
	ob, _ := json.Marshal(ov)
	ovFile := filepath.Join(tmp, "ov.json")
	os.WriteFile(ovFile, ob, 0o644)
	cmd := exec.Command("go", "test", "-overlay", ovFile, "-vet=off", "-count=1", "-timeout", "60s", "-run", "TestGcvReplay", "./"+pkgDir+"/")
	cmd.Dir = repo
	cmd.Env = append(os.Environ(), "GOFLAGS=-mod=mod", "GOPROXY=off")
	var out bytes.Buffer
	cmd.Stdout = &out
	cmd.Stderr = &out
	done := make(chan error, 1)
	go func() { done <- cmd.Run() }()
	select {
	case <-done:
	case <-time.After(180 * time.Second):
		if cmd.Process != nil {
			cmd.Process.Kill()
		}
	}
	reproduced := strings.Contains(out.String(), "GCV-REPLAY-REPRODUCED")
	extra := fmt.Sprintf("model inputs:\n%s\ncommand: cd %s && go test -overlay <ov.json> -vet=off -count=1 -timeout 60s -run TestGcvReplay ./%s/\nreproduced on the real code: %v\n\n--- generated test ---\n%s\n--- go test output ---\n%s",
		desc.String(), repo, pkgDir, reproduced, src.String(), truncate(out.String(), 6000))
	return writeReplay(id, name, why, r, extra), reproduced
}

// fpToGo converts an SMT floating-point literal (fp #b.. #b.. #b..) to a Go expression.
func fpToGo(v string) string {
	v = strings.TrimSpace(v)
	if strings.HasPrefix(v, "(fp ") {
		parts := strings.Fields(strings.TrimSuffix(strings.TrimPrefix(v, "(fp "), ")"))
		if len(parts) == 3 {
			bits := ""
			for _, p := range parts {
				switch {
				case strings.HasPrefix(p, "#b"):
					bits += p[2:]
				case strings.HasPrefix(p, "#x"):
					n, _ := new(big.Int).SetString(p[2:], 16)
					bits += fmt.Sprintf("%0*b", 4*(len(p)-2), n)
				}
			}
			n, ok := new(big.Int).SetString(bits, 2)
			if ok {
				return fmt.Sprintf("math.Float64frombits(0x%x)", n)
			}
		}
	}
	switch {
	case strings.Contains(v, "+oo"):
		return "math.Inf(1)"
	case strings.Contains(v, "-oo"):
		return "math.Inf(-1)"
	case strings.Contains(v, "NaN"):
		return "math.NaN()"
	case strings.Contains(v, "+zero"):
		return "0.0"
	case strings.Contains(v, "-zero"):
		return "math.Copysign(0, -1)"
	}
	return "0.0 /* unparsed " + v + " */"
}

package main

// Typed atomics (sync/atomic.Bool, Int32, Int64, Uint32, Uint64, Pointer[T]).
//
// The value of an atomic variable lives in a component A_<Type>[ref] (Bool ->
// Bool, integers -> Int, Pointer -> reference). Each method is one sequentially
// consistent action. In a function declared `opt interfere`, the environment
// (other goroutines) may change the variable between two actions of the
// function: the value is havocked before every action, so that nothing read by
// an earlier action is known to still hold. What the function itself did to the
// variable is recorded in ghosts, per struct field the variable was reached
// through:
//
//	nchanges("f")  number of actions of this call that changed the value
//	lastold("f")   value replaced by the last such action (bool as 0/1)
//	lastnew("f")   value written by it
//
// A contract like `result == (nchanges("fired") == 1)` then says: the call
// reports success iff it performed the transition itself, atomically.

import (
	"go/token"
	"go/types"
	"strings"

	"golang.org/x/tools/go/ssa"
)

type atomInfo struct {
	comp, sort string
	valT       types.Type // nil for Bool / Pointer
	isBool     bool
	isPtr      bool
}

func atomTypeOf(name string) (typ, op string, ok bool) {
	// "(*sync/atomic.Int32).Add", "(*sync/atomic.Pointer[T]).Load"
	const p = "(*sync/atomic."
	if !strings.HasPrefix(name, p) {
		return "", "", false
	}
	rest := name[len(p):]
	i := strings.Index(rest, ").")
	if i < 0 {
		return "", "", false
	}
	typ, op = rest[:i], rest[i+2:]
	if j := strings.Index(typ, "["); j >= 0 {
		typ = typ[:j]
	}
	return typ, op, true
}

func (x *Exec) atomInfoOf(typ string) (atomInfo, bool) {
	switch typ {
	case "Bool":
		return atomInfo{comp: "A_Bool", sort: "(Array Int Bool)", isBool: true}, true
	case "Int32":
		return atomInfo{comp: "A_Int32", sort: "(Array Int Int)", valT: types.Typ[types.Int32]}, true
	case "Int64":
		return atomInfo{comp: "A_Int64", sort: "(Array Int Int)", valT: types.Typ[types.Int64]}, true
	case "Uint32":
		return atomInfo{comp: "A_Uint32", sort: "(Array Int Int)", valT: types.Typ[types.Uint32]}, true
	case "Uint64":
		return atomInfo{comp: "A_Uint64", sort: "(Array Int Int)", valT: types.Typ[types.Uint64]}, true
	case "Pointer":
		return atomInfo{comp: "A_Pointer", sort: "(Array Int Int)", isPtr: true}, true
	}
	return atomInfo{}, false
}

// atomFieldName: the struct field through which the receiver of an atomic method is addressed.
func atomFieldName(recv ssa.Value) string {
	if fa, ok := recv.(*ssa.FieldAddr); ok {
		return deref(fa.X.Type()).Underlying().(*types.Struct).Field(fa.Field).Name()
	}
	return "atomic"
}

// atomOwnerName: the (unqualified, uninstantiated) name of the struct type holding the atomic field.
func atomOwnerName(recv ssa.Value) string {
	if fa, ok := recv.(*ssa.FieldAddr); ok {
		if n, ok := deref(fa.X.Type()).(*types.Named); ok {
			return n.Obj().Name()
		}
	}
	return ""
}

func (ai atomInfo) toZ(v Term) Term {
	if ai.isBool {
		return ite(v, "1", "0")
	}
	return v
}

func (x *Exec) atomicTyped(f *frame, in ssa.Instruction, name string, c *ssa.CallCommon, args []Val) (Val, bool) {
	typ, op, ok := atomTypeOf(name)
	if !ok || x.X.bvMode || len(args) == 0 || args[0].T == "" || args[0].A != nil {
		return Val{}, false
	}
	ai, ok := x.atomInfoOf(typ)
	if !ok {
		return Val{}, false
	}
	st := f.st
	r := args[0].T
	x.safety(st, "nil", not(eq(r, "0")), in.Pos())
	x.comp(ai.comp, ai.sort)
	x.assumed["sync/atomic typed values: each method is a single sequentially consistent action (Go memory model)"] = true
	inv := func(v Term) Term {
		if ai.valT != nil {
			return x.typeInv(ai.valT, v, st)
		}
		if ai.isPtr {
			return sx("<=", v, st.allocTop)
		}
		return "true"
	}
	if x.fc != nil && x.fc.Opts["interfere"] != "" {
		// environment step: other goroutines may have changed the variable since the last action
		es := "Int"
		if ai.isBool {
			es = "Bool"
		}
		ev := x.havocConst("env", es)
		x.assume(st, inv(ev))
		h := x.heapGet(st, ai.comp, ai.sort)
		st.heap[ai.comp] = x.define(x.fresh(ai.comp), ai.sort, sx("store", h, r, ev))
		x.assumed["opt interfere: the atomic variable may be changed by other goroutines between any two actions of the function (value havocked before each action)"] = false
	}
	cur := func() Term {
		es := "Int"
		if ai.isBool {
			es = "Bool"
		}
		t := x.define(x.fresh("aload"), es, sx("select", x.heapGet(st, ai.comp, ai.sort), r))
		x.assume(st, inv(t))
		return t
	}
	field := atomFieldName(c.Args[0])
	write := func(old, nv Term) {
		if x.fc != nil && x.fc.HasMod {
			x.frameCheck(st, &Addr{Kind: aField, Comp: ai.comp, Ref: r}, in.Pos())
		}
		h := x.heapGet(st, ai.comp, ai.sort)
		st.heap[ai.comp] = x.define(x.fresh(ai.comp), ai.sort, sx("store", h, r, nv))
		changed := x.define(x.fresh("achg"), "Bool", not(eq(old, nv)))
		// ghosts are keyed by the field name and also by "Type.field" (to tell apart
		// equally named counters of different types)
		for _, key := range []string{sanitize(field), sanitize(atomOwnerName(c.Args[0]) + "." + field)} {
			if cn := "Ghost_atom_nch_" + key; x.comps[cn] != "" {
				curN := x.heapGet(st, cn, "Int")
				st.heap[cn] = x.define(x.fresh(cn), "Int", ite(changed, sx("+", curN, "1"), curN))
			}
			if cn := "Ghost_atom_old_" + key; x.comps[cn] != "" {
				st.heap[cn] = x.define(x.fresh(cn), "Int", ite(changed, ai.toZ(old), x.heapGet(st, cn, "Int")))
			}
			if cn := "Ghost_atom_new_" + key; x.comps[cn] != "" {
				st.heap[cn] = x.define(x.fresh(cn), "Int", ite(changed, ai.toZ(nv), x.heapGet(st, cn, "Int")))
			}
		}
	}
	switch op {
	case "Load":
		return Val{T: cur()}, true
	case "Store":
		old := cur()
		write(old, args[1].T)
		return Val{}, true
	case "Swap":
		old := cur()
		write(old, args[1].T)
		return Val{T: old}, true
	case "Add":
		if ai.valT == nil {
			return Val{}, false
		}
		old := cur()
		nv := x.define(x.fresh("aadd"), "Int", x.binop(token.ADD, old, args[1].T, ai.valT, ai.valT, ai.valT))
		write(old, nv)
		return Val{T: nv}, true
	case "CompareAndSwap":
		old := cur()
		okT := x.define(x.fresh("cas"), "Bool", eq(old, args[1].T))
		write(old, ite(okT, args[2].T, old))
		return Val{T: okT}, true
	}
	return Val{}, false
}

// spec-side reads: x.f.Load() in a clause reads the component (no interference inside a clause)
func init() {
	for _, typ := range []string{"Bool", "Int32", "Int64", "Uint32", "Uint64"} {
		typ := typ
		pureExterns["(*sync/atomic."+typ+").Load"] = func(x *Exec, f *frame, m int, a []Val, in ssa.Value) (Val, bool) {
			ai, ok := x.atomInfoOf(typ)
			if !ok || len(a) == 0 || a[0].T == "" || x.X.bvMode {
				return Val{}, false
			}
			if !f.pure {
				return Val{}, false // main mode: handled by atomicTyped (interference, ghosts)
			}
			x.comp(ai.comp, ai.sort)
			return Val{T: sx("select", f.mem[m].heapOf(ai.comp, ai.sort), a[0].T)}, true
		}
	}
}

// atomicCompOf: the A_<Type> component that models values of a sync/atomic typed
// variable of type t ("" if t is not one).
func (x *Exec) atomicCompOf(t types.Type) string {
	n, ok := t.(*types.Named)
	if !ok || n.Obj().Pkg() == nil || n.Obj().Pkg().Path() != "sync/atomic" {
		return ""
	}
	ai, ok := x.atomInfoOf(n.Obj().Name())
	if !ok {
		return ""
	}
	x.comp(ai.comp, ai.sort)
	return ai.comp
}

package main

import (
	"go/types"
	"strings"

	"golang.org/x/tools/go/ssa"
)

// nchanges("f") / lastold("f") / lastnew("f") for a plain integer field f: the
// stores of this call to a field of that name (under the mutex that guards it,
// each store is an action nobody else can interleave with). Only maintained
// when a clause of the function mentions the ghost (the component exists).
func (x *Exec) plainFieldGhosts(st *State, fa *ssa.FieldAddr, a *Addr, nv Term, vt types.Type) {
	stt, ok := deref(fa.X.Type()).Underlying().(*types.Struct)
	if !ok {
		return
	}
	key := sanitize(stt.Field(fa.Field).Name())
	if x.comps["Ghost_atom_nch_"+key] == "" && x.comps["Ghost_atom_old_"+key] == "" && x.comps["Ghost_atom_new_"+key] == "" {
		return
	}
	b, ok := vt.Underlying().(*types.Basic)
	if !ok || b.Info()&types.IsInteger == 0 {
		return
	}
	old := x.loadAddr(stateView{x, st}, a)
	changed := x.define(x.fresh("fchg"), "Bool", not(eq(old, nv)))
	if cn := "Ghost_atom_nch_" + key; x.comps[cn] != "" {
		curN := x.heapGet(st, cn, "Int")
		st.heap[cn] = x.define(x.fresh(cn), "Int", ite(changed, sx("+", curN, "1"), curN))
	}
	if cn := "Ghost_atom_old_" + key; x.comps[cn] != "" {
		st.heap[cn] = x.define(x.fresh(cn), "Int", ite(changed, old, x.heapGet(st, cn, "Int")))
	}
	if cn := "Ghost_atom_new_" + key; x.comps[cn] != "" {
		st.heap[cn] = x.define(x.fresh(cn), "Int", ite(changed, nv, x.heapGet(st, cn, "Int")))
	}
}

// loopTouchesFieldNamed: may the loop change a field of that name (a store through a
// field address, any call of a method on such a field (typed atomics), or a callee
// that would be inlined)?
func (x *Exec) loopTouchesFieldNamed(li *loopInfo, key string) bool {
	named := func(v ssa.Value) bool {
		fa, ok := v.(*ssa.FieldAddr)
		if !ok {
			return false
		}
		stt, ok := deref(fa.X.Type()).Underlying().(*types.Struct)
		if !ok {
			return false
		}
		k := sanitize(stt.Field(fa.Field).Name())
		return k == key || strings.HasSuffix(key, "_"+k)
	}
	seen := map[*ssa.Function]bool{}
	var instr func(in ssa.Instruction) bool
	var fnTouches func(fn *ssa.Function) bool
	instr = func(in ssa.Instruction) bool {
		switch in := in.(type) {
		case *ssa.Store:
			return named(in.Addr)
		case *ssa.MakeClosure:
			if af, ok := in.Fn.(*ssa.Function); ok {
				return fnTouches(af)
			}
			return true
		case ssa.CallInstruction:
			c := in.Common()
			for _, a := range c.Args {
				if named(a) {
					return true
				}
			}
			if callee := c.StaticCallee(); callee != nil && x.L.FuncCon[funcKey(callee)] == nil && x.inlineable(callee) {
				return fnTouches(callee)
			}
		}
		return false
	}
	fnTouches = func(fn *ssa.Function) bool {
		if seen[fn] {
			return false
		}
		seen[fn] = true
		if len(seen) > 40 {
			return true
		}
		for _, b := range fn.Blocks {
			for _, in := range b.Instrs {
				if instr(in) {
					return true
				}
			}
		}
		return false
	}
	for b := range li.body {
		for _, in := range b.Instrs {
			if instr(in) {
				return true
			}
		}
	}
	return false
}

package main

import (
	"go/types"

	"golang.org/x/tools/go/ssa"
)

func init() {
	// strings.TrimSuffix(s, suf): s without the suffix if present
	pureExterns["strings.TrimSuffix"] = func(x *Exec, f *frame, m int, a []Val, in ssa.Value) (Val, bool) {
		s, p := a[0].T, a[1].T
		has := and(sx(">=", sx("slen", s), sx("slen", p)), eq(sx("substr", s, sx("-", sx("slen", s), sx("slen", p)), sx("slen", s)), p))
		return Val{T: ite(has, sx("substr", s, "0", sx("-", sx("slen", s), sx("slen", p))), s)}, true
	}
	pureExterns["strings.TrimPrefix"] = func(x *Exec, f *frame, m int, a []Val, in ssa.Value) (Val, bool) {
		s, p := a[0].T, a[1].T
		has := and(sx(">=", sx("slen", s), sx("slen", p)), eq(sx("substr", s, "0", sx("slen", p)), p))
		return Val{T: ite(has, sx("substr", s, sx("slen", p), sx("slen", s)), s)}, true
	}
	// strings.Contains(s, sub) for a one-byte constant sub: some byte of s equals it
	pureExterns["strings.Contains"] = func(x *Exec, f *frame, m int, a []Val, in ssa.Value) (Val, bool) {
		s, p := a[0].T, a[1].T
		x.X.declare("strcontains", `(declare-fun strcontains (Str Str) Bool)
(assert (forall ((s Str) (p Str)) (! (=> (= (slen p) 1) (= (strcontains s p) (exists ((i Int)) (and (<= 0 i) (< i (slen s)) (= (select (sdata s) i) (select (sdata p) 0)))))) :pattern ((strcontains s p)))))`)
		x.assumed["extern strings.Contains: axiomatised for one-byte patterns only (exists an index holding that byte); longer patterns uninterpreted"] = true
		return Val{T: sx("strcontains", s, p)}, true
	}
	// strings.CutPrefix(s, p) (after string, found bool)
	pureExterns["strings.CutPrefix"] = func(x *Exec, f *frame, m int, a []Val, in ssa.Value) (Val, bool) {
		s, p := a[0].T, a[1].T
		has := and(sx(">=", sx("slen", s), sx("slen", p)), eq(sx("substr", s, "0", sx("slen", p)), p))
		return Val{Tu: []Val{{T: ite(has, sx("substr", s, sx("slen", p), sx("slen", s)), s)}, {T: has}}}, true
	}
	// strings.LastIndex(s, p) for a one-byte pattern p: the last index holding that byte, or -1
	pureExterns["strings.LastIndex"] = func(x *Exec, f *frame, m int, a []Val, in ssa.Value) (Val, bool) {
		s, p := a[0].T, a[1].T
		x.X.declare("strlastindex", `(declare-fun strlastindex (Str Str) Int)
(assert (forall ((s Str) (p Str)) (! (=> (and (= (slen p) 1) (>= (slen s) 0)) (let ((r (strlastindex s p)) (c (select (sdata p) 0)))
  (and (<= (- 1) r) (< r (slen s))
       (=> (>= r 0) (= (select (sdata s) r) c))
       (forall ((j Int)) (! (=> (and (< r j) (< j (slen s))) (not (= (select (sdata s) j) c))) :pattern ((select (sdata s) j))))))) :pattern ((strlastindex s p)))))`)
		x.assumed["extern strings.LastIndex: axiomatised for one-byte patterns (last index holding the byte, or -1 if none); longer patterns uninterpreted"] = true
		return Val{T: sx("strlastindex", s, p)}, true
	}
	// credentials.RequestInfoFromContext(ctx): a pure lookup in the context (same ctx, same result)
	pureExterns["google.golang.org/grpc/credentials.RequestInfoFromContext"] = func(x *Exec, f *frame, m int, a []Val, in ssa.Value) (Val, bool) {
		tu, ok := in.Type().(*types.Tuple)
		if !ok || tu.Len() != 2 {
			return Val{}, false
		}
		srt := x.X.sortOf(tu.At(0).Type())
		x.X.declare("rifc", "(declare-fun rifc (Int) "+srt+")\n(declare-fun rifc_ok (Int) Bool)")
		x.assumed["extern credentials.RequestInfoFromContext: pure function of the context value"] = true
		return Val{Tu: []Val{{T: sx("rifc", a[0].T)}, {T: sx("rifc_ok", a[0].T)}}}, true
	}
	pureExterns["strings.EqualFold"] =func(x *Exec, f *frame, m int, a []Val, in ssa.Value) (Val, bool) {
		x.useLower()
		return Val{T: eq(sx("strlower", a[0].T), sx("strlower", a[1].T))}, true
	}
}

package main

// Parsing of //@ contract files (zz_verif_contracts.go) into structured contracts.

import (
	"fmt"
	"os"
	"regexp"
	"strconv"
	"strings"
)

type Clause struct {
	Kind     string // requires ensures loopinv loopdec assertcall modifies
	Text     string
	Loop     int    // loop ordinal (1-based) for loopinv/loopdec
	Site     string // callee#k for assertcall
	Line     int
	FnSym    string // generated clause function name
	Props    []string
	ParamPos map[string]string
	SitePos  string // file:offset of the call's '(' for assertcall clauses
	RangeInv bool   // clause of a range-over-func body that is an invariant of the whole loop
}

type FuncContract struct {
	Pkg        string // package path
	Key        string // "div", "(*T).m", "(T).m", "outer/lit1"
	Props      []string
	Requires   []*Clause
	Ensures    []*Clause
	LoopInv    map[int][]*Clause
	LoopDec    map[int]*Clause
	LoopExit   map[int][]*Clause // `loop K exit EXPR`: holds whenever loop K is left (checked on every exit edge)
	LoopStep   map[int][]*Clause // `loop K step EXPR`: relates the end of an iteration to its beginning (athead), on every back edge
	LoopMod    map[int][]string
	CallAsrt   []*Clause
	RetAsrt    []*Clause // assert at return K EXPR
	Modifies   []string
	HasMod     bool
	Trusted    bool
	Pure       bool
	Inline     bool
	NoPanic    bool // panic-freedom obligations count for the property
	BV         bool
	Lemma      bool
	LemmaSig   string // for lemmas: parameter list text
	Body       string // for lemmas: Go statements
	Line       int
	Opts       map[string]string
	modClauses []*Clause
}

type SpecFunc struct {
	Text string // full Go source: func name(...) T { ... }
	Name string
	Line int
}

type MonitorDecl struct {
	Type     string // struct type name
	Mu       string // mutex field
	Protects []string
	Invs     []*Clause
	Props    []string
}

type GhostField struct {
	Type, Name, GoType string
}

type PkgContracts struct {
	PkgPath  string
	PkgName  string
	File     string
	Funcs    []*FuncContract
	Specs    []*SpecFunc
	Monitors []*MonitorDecl
	Ghosts   []*GhostField
	Imports  []string // extra imports requested: `//@ import alias "path"`
	Axioms   []string // raw SMT axioms with provenance: `//@ axiom name: (smt)`
}

var kwRe = regexp.MustCompile(`^(func|spec|lemma|prop|requires|ensures|rangeinv|modifies|loop|assert|trusted|pure|inline|nopanic|arith|ghost|monitor|invariant|protects|body|import|axiom|opt)\b`)

func parseContractFile(path string) (*PkgContracts, error) {
	data, err := os.ReadFile(path)
	if err != nil {
		return nil, err
	}
	pc := &PkgContracts{File: path}
	lines := strings.Split(string(data), "\n")
	type item struct {
		text string
		line int
	}
	var items []item
	for i, ln := range lines {
		t := strings.TrimSpace(ln)
		if strings.HasPrefix(t, "package ") && pc.PkgName == "" {
			pc.PkgName = strings.TrimSpace(strings.TrimPrefix(t, "package "))
			continue
		}
		if !strings.HasPrefix(t, "//@") {
			continue
		}
		body := strings.TrimPrefix(t, "//@")
		// strip trailing comment introduced by " //"
		if k := strings.Index(body, " // "); k >= 0 {
			body = body[:k]
		}
		body = strings.TrimSpace(body)
		if body == "" {
			continue
		}
		if kwRe.MatchString(body) || len(items) == 0 {
			items = append(items, item{body, i + 1})
		} else {
			items[len(items)-1].text += "\n" + body
		}
	}
	var cur *FuncContract
	var curMon *MonitorDecl
	for _, it := range items {
		m := kwRe.FindString(it.text)
		rest := strings.TrimSpace(strings.TrimPrefix(it.text, m))
		switch m {
		case "import":
			pc.Imports = append(pc.Imports, rest)
		case "axiom":
			pc.Axioms = append(pc.Axioms, rest)
		case "spec":
			// spec func name(...) T { ... }
			sf := &SpecFunc{Text: rest, Line: it.line}
			nm := strings.TrimSpace(strings.TrimPrefix(rest, "func"))
			if k := strings.IndexAny(nm, "(["); k > 0 {
				sf.Name = strings.TrimSpace(nm[:k])
			}
			pc.Specs = append(pc.Specs, sf)
			cur, curMon = nil, nil
		case "func":
			cur = &FuncContract{Key: rest, LoopInv: map[int][]*Clause{}, LoopDec: map[int]*Clause{}, LoopMod: map[int][]string{}, Line: it.line, Opts: map[string]string{}}
			pc.Funcs = append(pc.Funcs, cur)
			curMon = nil
		case "lemma":
			// lemma name(params)
			k := strings.Index(rest, "(")
			if k < 0 {
				return nil, fmt.Errorf("%s:%d: lemma needs parameter list", path, it.line)
			}
			cur = &FuncContract{Key: "gcvLemma_" + strings.TrimSpace(rest[:k]), Lemma: true, LemmaSig: rest[k:], LoopInv: map[int][]*Clause{}, LoopDec: map[int]*Clause{}, LoopMod: map[int][]string{}, Line: it.line, Opts: map[string]string{}}
			pc.Funcs = append(pc.Funcs, cur)
			curMon = nil
		case "ghost":
			// ghost field T.name type
			f := strings.Fields(rest)
			if len(f) >= 3 && f[0] == "field" {
				tn := strings.SplitN(f[1], ".", 2)
				if len(tn) == 2 {
					pc.Ghosts = append(pc.Ghosts, &GhostField{Type: tn[0], Name: tn[1], GoType: strings.Join(f[2:], " ")})
				}
			}
		case "monitor":
			// monitor T.mu protects a, b, c
			f := strings.SplitN(rest, "protects", 2)
			tn := strings.SplitN(strings.TrimSpace(f[0]), ".", 2)
			if len(tn) != 2 {
				return nil, fmt.Errorf("%s:%d: bad monitor", path, it.line)
			}
			curMon = &MonitorDecl{Type: tn[0], Mu: tn[1]}
			if len(f) == 2 {
				for _, p := range strings.Split(f[1], ",") {
					if p = strings.TrimSpace(p); p != "" {
						curMon.Protects = append(curMon.Protects, p)
					}
				}
			}
			pc.Monitors = append(pc.Monitors, curMon)
			cur = nil
		case "invariant":
			if curMon == nil {
				return nil, fmt.Errorf("%s:%d: invariant outside monitor", path, it.line)
			}
			curMon.Invs = append(curMon.Invs, &Clause{Kind: "moninv", Text: rest, Line: it.line})
		default:
			if cur == nil && curMon != nil && m == "prop" {
				curMon.Props = strings.Fields(rest)
				continue
			}
			if cur == nil {
				return nil, fmt.Errorf("%s:%d: clause %q outside func", path, it.line, m)
			}
			switch m {
			case "prop":
				cur.Props = strings.Fields(rest)
			case "requires":
				cur.Requires = append(cur.Requires, &Clause{Kind: "requires", Text: rest, Line: it.line})
			case "ensures":
				cur.Ensures = append(cur.Ensures, &Clause{Kind: "ensures", Text: rest, Line: it.line})
			case "rangeinv":
				// body of a range-over-func loop: assumed at the start of every iteration, re-established
				// at its end, and therefore (range-over-func rule at the iterator call) after the loop
				cur.Requires = append(cur.Requires, &Clause{Kind: "requires", Text: rest, Line: it.line, RangeInv: true})
				cur.Ensures = append(cur.Ensures, &Clause{Kind: "ensures", Text: rest, Line: it.line, RangeInv: true})
			case "modifies":
				cur.HasMod = true
				for _, p := range strings.Split(rest, ",") {
					if p = strings.TrimSpace(p); p != "" {
						cur.Modifies = append(cur.Modifies, p)
					}
				}
			case "loop":
				f := strings.SplitN(rest, " ", 3)
				if len(f) < 3 {
					return nil, fmt.Errorf("%s:%d: bad loop clause", path, it.line)
				}
				k, err := strconv.Atoi(f[0])
				if err != nil {
					return nil, fmt.Errorf("%s:%d: bad loop ordinal", path, it.line)
				}
				switch f[1] {
				case "invariant":
					cur.LoopInv[k] = append(cur.LoopInv[k], &Clause{Kind: "loopinv", Text: f[2], Loop: k, Line: it.line})
				case "decreases":
					cur.LoopDec[k] = &Clause{Kind: "loopdec", Text: f[2], Loop: k, Line: it.line}
				case "step":
					if cur.LoopStep == nil {
						cur.LoopStep = map[int][]*Clause{}
					}
					cur.LoopStep[k] = append(cur.LoopStep[k], &Clause{Kind: "loopstep", Text: f[2], Loop: k, Line: it.line})
				case "exit":
					if cur.LoopExit == nil {
						cur.LoopExit = map[int][]*Clause{}
					}
					cur.LoopExit[k] = append(cur.LoopExit[k], &Clause{Kind: "loopexit", Text: f[2], Loop: k, Line: it.line})
				case "modifies":
					for _, p := range strings.Split(f[2], ",") {
						cur.LoopMod[k] = append(cur.LoopMod[k], strings.TrimSpace(p))
					}
				default:
					return nil, fmt.Errorf("%s:%d: bad loop clause kind %q", path, it.line, f[1])
				}
			case "assert":
				// assert at call callee#k EXPR
				f := strings.SplitN(rest, " ", 4)
				if len(f) == 4 && f[0] == "at" && f[1] == "return" {
					cur.RetAsrt = append(cur.RetAsrt, &Clause{Kind: "assertret", Site: "return#" + f[2], Text: f[3], Line: it.line})
					break
				}
				if len(f) < 4 || f[0] != "at" || f[1] != "call" {
					return nil, fmt.Errorf("%s:%d: bad assert clause", path, it.line)
				}
				cur.CallAsrt = append(cur.CallAsrt, &Clause{Kind: "assertcall", Site: f[2], Text: f[3], Line: it.line})
			case "trusted":
				cur.Trusted = true
			case "pure":
				cur.Pure = true
			case "inline":
				cur.Inline = true
			case "nopanic":
				cur.NoPanic = true
			case "arith":
				cur.BV = rest == "bv"
			case "body":
				cur.Body = rest
			case "opt":
				kv := strings.SplitN(rest, " ", 2)
				if len(kv) == 2 {
					cur.Opts[kv[0]] = strings.TrimSpace(kv[1])
				} else {
					cur.Opts[kv[0]] = "true"
				}
			}
		}
	}
	return pc, nil
}

func (fc *FuncContract) allClauses() []*Clause {
	var out []*Clause
	out = append(out, fc.Requires...)
	out = append(out, fc.Ensures...)
	ks := []int{}
	for k := range fc.LoopInv {
		ks = append(ks, k)
	}
	for _, k := range ks {
		out = append(out, fc.LoopInv[k]...)
	}
	for _, c := range fc.LoopDec {
		out = append(out, c)
	}
	for _, cs := range fc.LoopExit {
		out = append(out, cs...)
	}
	for _, cs := range fc.LoopStep {
		out = append(out, cs...)
	}
	out = append(out, fc.CallAsrt...)
	out = append(out, fc.RetAsrt...)
	return out
}

package main

import "go/types"

// clockValue: the result of time.Now() (or of a package-level seam bound to it).
// The abstract nanosecond value time_ns is the Unix time: the zero Time
// (year 1) is far below 0, and the clock is assumed to return a time between
// 1970 and 2116 (0 <= ns <= 2^62), so UnixNano() of a clock value is
// non-negative and does not wrap.
func (x *Exec) clockValue(st *State, rt types.Type, what string) Val {
	v := x.havocValue(st, rt, "now")
	ns := x.timeNS(v)
	x.X.declare("time_zero_neg", "(assert (< time_zero 0))")
	x.assume(st, and(sx("<=", "0", ns), sx("<=", ns, "4611686018427387904")))
	x.assumed["extern "+what+": some time between 1970 and 2116 (Unix nanoseconds in [0, 2^62]); no effect on modelled state"] = true
	return Val{T: v}
}

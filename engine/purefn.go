package main

import (
	"fmt"
	"go/types"
	"strings"

	"golang.org/x/tools/go/ssa"
)

// pureFuncApp: application of the uninterpreted symbol standing for a function
// whose contract is marked `pure`. Only functions with a single result whose
// parameters are values (no pointers, slices, maps, channels, interfaces) may
// be marked pure: their result cannot depend on the heap.
func (x *Exec) pureFuncApp(callee *ssa.Function, args []Val) (Term, bool) {
	sig := callee.Signature
	if sig.Results().Len() != 1 {
		x.errorf("pure function %s must have exactly one result", callee.Name())
		return "", false
	}
	var sorts, ts []string
	for i, p := range callee.Params {
		switch p.Type().Underlying().(type) {
		case *types.Pointer, *types.Slice, *types.Map, *types.Chan, *types.Interface, *types.Signature:
			x.errorf("pure function %s: parameter %s is not a value type", callee.Name(), p.Name())
			return "", false
		}
		sorts = append(sorts, x.X.sortOf(p.Type()))
		if i < len(args) {
			ts = append(ts, args[i].T)
		}
	}
	name := "pf_" + sanitize(funcKey(callee))
	x.X.declare(name, fmt.Sprintf("(declare-fun %s (%s) %s)", name, strings.Join(sorts, " "), x.X.sortOf(sig.Results().At(0).Type())))
	if len(ts) == 0 {
		return name, true
	}
	return sx(append([]string{name}, ts...)...), true
}

package main

import (
	"go/types"

	"golang.org/x/tools/go/ssa"
)

// encoding/binary byte-order readers on []byte: exact arithmetic definitions.
func init() {
	rd := func(order []int) pureExtern {
		return func(x *Exec, f *frame, m int, a []Val, in ssa.Value) (Val, bool) {
			// a[0] is the (empty struct) receiver, a[1] the slice
			if x.X.bvMode {
				return Val{}, false
			}
			b := a[len(a)-1].T
			c, srt := x.elemComp(types.Typ[types.Uint8])
			x.comp(c, srt)
			arr := sx("select", f.mem[m].heapOf(c, srt), sx("sbase", b))
			t := "0"
			mul := 1
			for _, k := range order {
				byteK := sx("select", arr, sx("+", sx("soff", b), intLit64(int64(k))))
				// bytes are 0..255 (element heap of uint8 values)
				t = sx("+", t, sx("*", intLit64(int64(mul)), sx("mod", byteK, "256")))
				mul *= 256
			}
			if m == 0 {
				x.readerLenCheck(f, b, len(order), in)
			}
			x.assumed["extern encoding/binary byte-order readers: exact little/big-endian value of the first bytes; the panic on a slice shorter than the value read is an index obligation of the caller"] = true
			return Val{T: t}, true
		}
	}
	pureExterns["(encoding/binary.littleEndian).Uint32"] = rd([]int{0, 1, 2, 3})
	pureExterns["(encoding/binary.littleEndian).Uint16"] = rd([]int{0, 1})
	pureExterns["(encoding/binary.bigEndian).Uint32"] = rd([]int{3, 2, 1, 0})
	pureExterns["(encoding/binary.bigEndian).Uint16"] = rd([]int{1, 0})
}

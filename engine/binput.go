package main

// encoding/binary byte-order writers on []byte (PutUint16/32/64), 64-bit
// readers, and the length check of the readers (in main mode the reader's panic
// on a short slice is an `index` safety obligation of the caller).

import (
	"go/types"

	"golang.org/x/tools/go/ssa"
)

type effectExtern func(x *Exec, f *frame, in ssa.Instruction, args []Val) (Val, bool)

var effectExterns = map[string]effectExtern{}

func init() {
	wr := func(order []int) effectExtern {
		// order[i] = byte position that receives the i-th least significant byte
		return func(x *Exec, f *frame, in ssa.Instruction, args []Val) (Val, bool) {
			if x.X.bvMode || len(args) < 3 {
				return Val{}, false
			}
			st := f.st
			b, v := args[len(args)-2].T, args[len(args)-1].T
			n := len(order)
			x.safety(st, "index", sx(">=", sx("sllen", b), intLit64(int64(n))), in.Pos())
			cn, srt := x.elemComp(types.Typ[types.Uint8])
			h := x.heapGet(st, cn, srt)
			arr := sx("select", h, sx("sbase", b))
			div := int64(1)
			for _, pos := range order {
				byteV := sx("mod", sx("div", v, intLit64(div)), "256")
				arr = sx("store", arr, sx("+", sx("soff", b), intLit64(int64(pos))), byteV)
				if div < 1<<56 {
					div *= 256
				} else {
					div = -1
				}
			}
			if x.fc != nil && x.fc.HasMod {
				x.frameCheck(st, &Addr{Kind: aElem, Comp: cn, Ref: sx("sbase", b)}, in.Pos())
			}
			st.heap[cn] = x.define(x.fresh(cn), srt, sx("store", h, sx("sbase", b), arr))
			x.assumed["extern encoding/binary byte-order writers: store exactly the little/big-endian bytes of the value; panic on a short slice is checked as an index obligation"] = true
			return Val{}, true
		}
	}
	effectExterns["(encoding/binary.bigEndian).PutUint32"] = wr([]int{3, 2, 1, 0})
	effectExterns["(encoding/binary.bigEndian).PutUint16"] = wr([]int{1, 0})
	effectExterns["(encoding/binary.littleEndian).PutUint32"] = wr([]int{0, 1, 2, 3})
	effectExterns["(encoding/binary.littleEndian).PutUint16"] = wr([]int{0, 1})
}

// readerLenCheck: the byte-order readers panic when the slice is shorter than the value read.
func (x *Exec) readerLenCheck(f *frame, b Term, n int, in ssa.Value) {
	if f.pure || f.st == nil {
		return
	}
	if ins, ok := in.(ssa.Instruction); ok {
		x.safety(f.st, "index", sx(">=", sx("sllen", b), intLit64(int64(n))), ins.Pos())
	}
}

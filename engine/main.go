package main

import (
	"flag"
	"fmt"
	"go/types"
	"os"
	"sort"
	"strings"

	"golang.org/x/tools/go/ssa"
)

func findFunction(L *Loaded, pkgPath, key string) *ssa.Function {
	sp := L.SSAPkgs[pkgPath]
	if sp == nil {
		return nil
	}
	base := key
	var lits []string
	if i := strings.Index(key, "$"); i >= 0 {
		base = key[:i]
		lits = strings.Split(key[i+1:], "$")
	}
	var fn *ssa.Function
	if strings.HasPrefix(base, "(") {
		k := strings.Index(base, ").")
		recv := strings.TrimPrefix(base[1:k], "*")
		ptr := strings.HasPrefix(base[1:k], "*")
		name := base[k+2:]
		tobj := sp.Pkg.Scope().Lookup(recv)
		if tobj == nil {
			return nil
		}
		T := tobj.Type()
		if nt, ok := T.(*types.Named); ok && nt.TypeParams().Len() > 0 {
			// method of a generic type: the generic (uninstantiated) body
			for i := 0; i < nt.NumMethods(); i++ {
				if m := nt.Method(i); m.Name() == name {
					fn = sp.Prog.FuncValue(m)
				}
			}
		} else if ptr {
			fn = sp.Prog.LookupMethod(typesPointer(T), sp.Pkg, name)
		} else {
			fn = sp.Prog.LookupMethod(T, sp.Pkg, name)
		}
	} else {
		fn = sp.Func(base)
	}
	if fn == nil {
		return nil
	}
	for _, l := range lits {
		want := fn.Name() + "$" + l
		var next *ssa.Function
		for _, af := range fn.AnonFuncs {
			if af.Name() == want {
				next = af
			}
		}
		if next == nil {
			return nil
		}
		fn = next
	}
	return fn
}

func devMain(args []string) {
	fs := flag.NewFlagSet("dev", flag.ExitOnError)
	repo := fs.String("repo", "/repo", "repository")
	pkgs := fs.String("pkgs", "", "comma separated package dirs")
	only := fs.String("func", "", "only this function key")
	timeout := fs.Int("timeout", 10, "solver timeout seconds")
	keep := fs.String("keep", "", "directory to keep smt files")
	dump := fs.Bool("dump", false, "dump VC text")
	fs.Parse(args)
	L, err := load(*repo, strings.Split(*pkgs, ","))
	if err != nil {
		fmt.Fprintln(os.Stderr, "load error:", err)
		os.Exit(2)
	}
	fmt.Println(loadTimings)
	dir := *keep
	if dir == "" {
		dir, _ = os.MkdirTemp("", "gcv-")
		defer os.RemoveAll(dir)
	} else {
		os.MkdirAll(dir, 0o755)
	}
	var keys []string
	for k := range L.FuncCon {
		keys = append(keys, k)
	}
	sort.Strings(keys)
	for _, k := range keys {
		fc := L.FuncCon[k]
		if *only != "" && fc.Key != *only {
			continue
		}
		// only the packages named on the command line (dependencies with contracts are loaded too)
		wanted := false
		for _, p := range strings.Split(*pkgs, ",") {
			p = strings.TrimPrefix(strings.TrimPrefix(p, "./"), ".")
			if fc.Pkg == "google.golang.org/grpc" && p == "" || p != "" && strings.HasSuffix(fc.Pkg, "/"+p) {
				wanted = true
			}
		}
		if !wanted {
			continue
		}
		if fc.Trusted {
			fmt.Printf("== %s TRUSTED\n", k)
			continue
		}
		fn := findFunction(L, fc.Pkg, fc.Key)
		if fn == nil {
			fmt.Printf("== %s: function not found\n", k)
			continue
		}
		x := newExec(L, fn, fc)
		x.run()
		fmt.Printf("== %s: %d obligations, vc %d bytes\n", k, len(x.obls), x.out.Len())
		for _, e := range x.errs {
			fmt.Println("   ERROR:", e)
		}
		for a := range x.abstracts {
			fmt.Println("   abstracted:", a)
		}
		if *dump {
			fmt.Println(x.out.String())
		}
		res := solveAll(x, dir, *timeout, 5, nil)
		for _, r := range res {
			status := r.Result
			if r.Canary {
				if r.Result == "sat" {
					status = "ok(canary sat)"
				} else {
					status = "VACUOUS? " + r.Result
				}
			}
			where := ""
			if r.Result != "unsat" && !r.Canary {
				where = " @" + r.Where
			}
			fmt.Printf("   %-50s %-16s %-10s %.2fs %dB %s%s\n", r.Name, status, r.Solver, r.TimeS, r.SMTBytes, r.Clause, where)
			if r.Result == "error" {
				fmt.Println("      ", strings.SplitN(r.Output, "\n", 3)[0], r.File)
			}
		}
	}
}

func main() {
	if len(os.Args) < 2 {
		fmt.Fprintln(os.Stderr, "usage: gcv dev|check ...")
		os.Exit(2)
	}
	switch os.Args[1] {
	case "dev":
		devMain(os.Args[2:])
	case "check":
		os.Exit(checkMain(os.Args[2:]))
	case "selftest":
		os.Exit(selftestMain(os.Args[2:]))
	default:
		fmt.Fprintln(os.Stderr, "unknown command")
		os.Exit(2)
	}
}

func typesPointer(t types.Type) types.Type { return types.NewPointer(t) }

package main

// fcOpt: per-function `opt <name> <value>` of the contract being verified.
func (x *Exec) fcOpt(name string) string {
	if x.fc == nil {
		return ""
	}
	return x.fc.Opts[name]
}

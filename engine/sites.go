package main

import (
	"fmt"
	"strings"

	"golang.org/x/tools/go/ssa"
)

// siteAssertions counts the call site (per callee name, in execution order of
// the acyclic CFG walk, which follows source order for straight-line code) and
// discharges the caller's `assert at call name#k` clauses attached to it. The
// clause may refer to the arguments as arg0, arg1, ... besides the caller's
// locals. Returns the site label name#k.
func (x *Exec) siteAssertions(st *State, in ssa.Instruction, name string, args []Val) string {
	x.calls[name]++
	x.lastSite = name
	site := fmt.Sprintf("%s#%d", name, x.calls[name])
	// path-sensitive call counter (ghost), kept only for callees some clause asks about via ncalls("name")
	// (incremented after the assertions of this site were evaluated: at a site, ncalls counts the
	// calls completed before it)
	defer func() {
		if cn := "Ghost_calls_" + name; x.comps[cn] != "" {
			cur, ok := st.heap[cn]
			if !ok || cur == cn+"@0" {
				cur = "0"
			}
			st.heap[cn] = x.define(x.fresh(cn), "Int", sx("+", cur, "1"))
		}
	}()
	if x.fc == nil {
		return site
	}
	canaryDone := false
	for _, ca := range x.fc.CallAsrt {
		match := ca.Site == site || ca.Site == name && x.calls[name] == 1
		if ca.SitePos != "" {
			// the k-th call of that name in *source* order, identified by position
			pos := in.Pos()
			if x.sitePosOverride.IsValid() {
				pos = x.sitePosOverride // a send case of a select statement: the position of its arrow
			}
			match = pos.IsValid() && x.posKey(pos) == ca.SitePos
		}
		if match {
			if !canaryDone {
				// vacuity guard: the call site must be reachable (an infeasible path would make
				// every assertion at it hold trivially)
				canaryDone = true
				x.obls = append(x.obls, &Obligation{Name: x.short + ":reach:" + ca.Site, Kind: "site-reach", Props: x.props(), Prefix: x.out.Len(), Live: st.live, Goal: "false", Canary: true, Func: x.short})
			}
			ov := map[string]dual{}
			for i := range args {
				ov[fmt.Sprintf("arg%d", i)] = dualOf(args[i])
			}
			if x.curRecv.T != "" {
				ov["recv"] = dualOf(x.curRecv) // receiver of an interface method call
			}
			oldSt := x.entry
			if strings.Contains(ca.Text, "athead(") {
				// athead(e): e in the state at the head of the innermost loop around this call
				// (start of the current iteration); such a clause does not use old()
				if hs := x.headStateFor(in); hs != nil {
					oldSt = hs
				} else {
					x.errorf("athead() used at %s, which is not inside a loop", ca.Site)
				}
			}
			t := x.evalClauseDual(ca, x.fn, st, oldSt, nil, false, ov)[0].T
			nth := 0
			for _, other := range x.fc.CallAsrt {
				if other.Site == ca.Site {
					nth++
				}
				if other == ca {
					break
				}
			}
			o := x.oblige(st, "assert", fmt.Sprintf("assert:%s:%d", ca.Site, nth), t, in.Pos(), false, x.props())
			o.Clause, o.Line = ca.Text, ca.Line
		}
	}
	return site
}

// headStateFor: the state recorded at the head (after havoc and invariants) of the
// innermost loop whose body contains the instruction.
func (x *Exec) headStateFor(in ssa.Instruction) *State {
	var best *loopInfo
	for _, li := range x.loops {
		if li.body[in.Block()] || li.head == in.Block() {
			if best == nil || len(li.body) < len(best.body) {
				best = li
			}
		}
	}
	if best == nil {
		// a return statement written inside a loop is not part of the natural loop (it leaves
		// it): take the innermost loop head that dominates it
		for _, li := range x.loops {
			if li.head.Dominates(in.Block()) && (best == nil || best.head.Dominates(li.head)) {
				best = li
			}
		}
	}
	if best == nil {
		return nil
	}
	return x.headStates[best.head]
}

package main

import (
	"fmt"
	"go/ast"
	"go/types"
	"strings"

	"golang.org/x/tools/go/packages"
)

// findAnonFunc resolves a contract key outer$k[$k...] to the source of the
// anonymous function go/ssa names that way. go/ssa numbers, per enclosing
// function and in source order, both function literals and the synthesized
// yield functions of range-over-func loops (the loop body becomes a function).
func findAnonFunc(p *packages.Package, fd *ast.FuncDecl, key string) (body *ast.BlockStmt, scope *types.Scope, sig *types.Signature) {
	parts := strings.Split(key, "$")
	var cur ast.Node = fd.Body
	for _, ks := range parts[1:] {
		var k int
		fmt.Sscanf(ks, "%d", &k)
		n := 0
		var found ast.Node
		ast.Inspect(cur, func(m ast.Node) bool {
			if found != nil {
				return false
			}
			switch m := m.(type) {
			case *ast.FuncLit:
				n++
				if n == k {
					found = m
				}
				return false
			case *ast.RangeStmt:
				if _, ok := p.TypesInfo.TypeOf(m.X).Underlying().(*types.Signature); ok {
					n++
					if n == k {
						found = m
					}
					return false
				}
			}
			return true
		})
		switch f := found.(type) {
		case *ast.FuncLit:
			body = f.Body
			scope = p.TypesInfo.Scopes[f.Type]
			sig, _ = p.TypesInfo.TypeOf(f).(*types.Signature)
		case *ast.RangeStmt:
			body = f.Body
			scope = p.Types.Scope().Innermost(f.Body.Lbrace + 1)
			sig = nil
			if it, ok := p.TypesInfo.TypeOf(f.X).Underlying().(*types.Signature); ok && it.Params().Len() == 1 {
				sig, _ = it.Params().At(0).Type().Underlying().(*types.Signature)
			}
		default:
			return nil, nil, nil
		}
		cur = body
	}
	return body, scope, sig
}

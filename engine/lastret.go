package main

import (
	"fmt"
	"go/types"

	"golang.org/x/tools/go/ssa"
)

// Ghost `lastret("name")`: the integer result of the most recent call of the
// callee (function or method name, as in call-site labels) on the path;
// `lastret("name#k")`: the result of the k-th call of that name in the order
// the executor meets them (source order for straight-line code). Kept only for
// names some clause asks about; Int mode only.

func callSiteName(c *ssa.CallCommon) string {
	if c.IsInvoke() {
		return c.Method.Name()
	}
	if callee := c.StaticCallee(); callee != nil {
		return baseName(callee)
	}
	return ""
}

// baseName: the function's name without the type-argument list of an instantiation
// (Len[*T] -> Len), so that call sites of generic methods are named like any other.
func baseName(fn *ssa.Function) string {
	n := fn.Name()
	for i := 0; i < len(n); i++ {
		if n[i] == '[' {
			return n[:i]
		}
	}
	return n
}

func (x *Exec) callStep(f *frame, in *ssa.Call) {
	name := callSiteName(in.Common())
	k := x.calls[name] + 1
	v := x.call(f, in, in.Common())
	x.vals[in] = v
	if name != "" && len(v.Tu) == 2 && !x.X.bvMode {
		// (T, error) results: lastret("name") is the first component (integers only),
		// lastret("name.err") the error as a reference (0 = nil)
		if tu, ok := in.Type().(*types.Tuple); ok && tu.Len() == 2 && tu.At(1).Type().String() == "error" {
			if _, isInt := x.X.intInfoOf(tu.At(0).Type()); isInt && v.Tu[0].T != "" {
				for _, cn := range []string{"Ghost_ret_" + sanitize(name), "Ghost_ret_" + sanitize(fmt.Sprintf("%s#%d", name, k))} {
					if x.comps[cn] != "" {
						f.st.heap[cn] = v.Tu[0].T
					}
				}
			}
			if v.Tu[1].T != "" {
				for _, cn := range []string{"Ghost_ret_" + sanitize(name+".err"), "Ghost_ret_" + sanitize(fmt.Sprintf("%s#%d.err", name, k))} {
					if x.comps[cn] != "" {
						f.st.heap[cn] = v.Tu[1].T
					}
				}
			}
		}
		return
	}
	if name == "" || v.T == "" {
		return
	}
	val := v.T
	if x.X.bvMode {
		// bit-vector mode: integer results only, kept as their mathematical value
		ii, ok := x.X.intInfoOf(in.Type())
		if !ok {
			return
		}
		val = x.bvConvert(v.T, ii, intInfo{math: true})
	} else if _, ok := x.X.intInfoOf(in.Type()); !ok {
		// pointers are references (Int): lastret("f") == 0 means the call returned nil; booleans are 0/1
		if b, isB := in.Type().Underlying().(*types.Basic); isB && b.Info()&types.IsBoolean != 0 {
			val = ite(v.T, "1", "0")
		} else if _, isPtr := in.Type().Underlying().(*types.Pointer); !isPtr {
			// interface values (e.g. an error) are references as well: 0 = nil
			if _, isIface := in.Type().Underlying().(*types.Interface); !isIface {
				return
			}
		}
	}
	for _, cn := range []string{"Ghost_ret_" + sanitize(name), "Ghost_ret_" + sanitize(fmt.Sprintf("%s#%d", name, k))} {
		if x.comps[cn] != "" {
			f.st.heap[cn] = val
		}
	}
}

// loopCallsNamed: may the loop record a result under the ghost key (sanitized
// "name" or "name#k")? True if a call of that name occurs in the loop body, or
// a callee that would be inlined (its inner calls are recorded too).
func (x *Exec) loopCallsNamed(li *loopInfo, key string) bool {
	for b := range li.body {
		for _, in := range b.Instrs {
			c, ok := in.(ssa.CallInstruction)
			if !ok {
				continue
			}
			n := sanitize(callSiteName(c.Common()))
			if n != "" && (n == key || len(key) > len(n) && key[:len(n)+1] == n+"_") {
				return true
			}
			if callee := c.Common().StaticCallee(); callee != nil && x.L.FuncCon[funcKey(callee)] == nil && x.inlineable(callee) {
				if x.fnCallsNamed(callee, key, map[*ssa.Function]bool{}) {
					return true
				}
			}
		}
	}
	return false
}

// fnCallsNamed: does fn (which would be inlined), or anything inlined into it, contain a call
// recorded under the ghost key? Anything not resolvable statically counts as yes.
func (x *Exec) fnCallsNamed(fn *ssa.Function, key string, seen map[*ssa.Function]bool) bool {
	if seen[fn] {
		return false
	}
	seen[fn] = true
	if len(seen) > 40 {
		return true
	}
	for _, b := range fn.Blocks {
		for _, in := range b.Instrs {
			if mc, ok := in.(*ssa.MakeClosure); ok {
				if af, ok := mc.Fn.(*ssa.Function); ok && x.fnCallsNamed(af, key, seen) {
					return true
				}
			}
			c, ok := in.(ssa.CallInstruction)
			if !ok {
				continue
			}
			n := sanitize(callSiteName(c.Common()))
			if n != "" && (n == key || len(key) > len(n) && key[:len(n)+1] == n+"_") {
				return true
			}
			if callee := c.Common().StaticCallee(); callee != nil && x.L.FuncCon[funcKey(callee)] == nil && x.inlineable(callee) {
				if x.fnCallsNamed(callee, key, seen) {
					return true
				}
			}
		}
	}
	return false
}

package main

// Portfolio solving of obligations with z3 4.8.12, z3 5.1.0 (z3-new) and cvc5.

import (
	"bytes"
	"context"
	"fmt"
	"os"
	"os/exec"
	"path/filepath"
	"strings"
	"sync"
	"time"
)

type SolveResult struct {
	Name     string             `json:"name"`
	Kind     string             `json:"kind"`
	Props    []string           `json:"props,omitempty"`
	Result   string             `json:"result"` // unsat (discharged) | sat | unknown | timeout | error
	Solver   string             `json:"solver"`
	TimeS    float64            `json:"time_s"`
	SMTBytes int                `json:"smt_bytes"`
	Model    string             `json:"model,omitempty"`
	File     string             `json:"-"`
	Canary   bool               `json:"canary,omitempty"`
	Safety   bool               `json:"safety,omitempty"`
	Clause   string             `json:"clause,omitempty"`
	Line     int                `json:"line,omitempty"`
	Func     string             `json:"func"`
	PerSolv  map[string]float64 `json:"-"`
	Output   string             `json:"-"`
}

type solverSpec struct {
	name string
	argv func(file string, timeoutS int) []string
}

var solvers = []solverSpec{
	{"z3-4.8.12", func(f string, t int) []string { return []string{"z3", fmt.Sprintf("-T:%d", t), f} }},
	{"z3-5.1.0", func(f string, t int) []string { return []string{"z3-new", fmt.Sprintf("-T:%d", t), f} }},
	{"cvc5-1.0", func(f string, t int) []string {
		return []string{"cvc5", fmt.Sprintf("--tlimit=%d", t*1000), "--full-saturate-quant", f}
	}},
}

func (x *Exec) obligationText(o *Obligation) string {
	var b strings.Builder
	b.WriteString(prelude)
	var body strings.Builder
	for _, d := range x.X.decls {
		body.WriteString(d)
		body.WriteByte('\n')
	}
	body.WriteString(x.out.String()[:o.Prefix])
	bs := body.String()
	for _, op := range optionalPrelude {
		if strings.Contains(bs, "("+op.sym+" ") || strings.Contains(o.Goal, "("+op.sym+" ") || strings.Contains(o.Live, "("+op.sym+" ") {
			b.WriteString(op.text)
			b.WriteByte('\n')
		}
	}
	b.WriteString(bs)
	fmt.Fprintf(&b, "(assert %s)\n", o.Live)
	fmt.Fprintf(&b, "(assert (not %s))\n", o.Goal)
	b.WriteString("(check-sat)\n(get-model)\n")
	return b.String()
}

var solverTime sync.Map // name -> *float64 accumulators guarded by mu
var solverMu sync.Mutex
var solverSecs = map[string]float64{}

func runSolver(ctx context.Context, s solverSpec, file string, timeoutS int) (string, string, float64) {
	argv := s.argv(file, timeoutS)
	cctx, cancel := context.WithTimeout(ctx, time.Duration(timeoutS+2)*time.Second)
	defer cancel()
	cmd := exec.CommandContext(cctx, argv[0], argv[1:]...)
	var out bytes.Buffer
	cmd.Stdout = &out
	cmd.Stderr = &out
	t0 := time.Now()
	cmd.Run()
	dt := time.Since(t0).Seconds()
	solverMu.Lock()
	solverSecs[s.name] += dt
	solverMu.Unlock()
	text := out.String()
	first := strings.TrimSpace(strings.SplitN(strings.TrimSpace(text), "\n", 2)[0])
	switch first {
	case "unsat", "sat", "unknown":
		return first, text, dt
	case "timeout":
		return "timeout", text, dt
	}
	if cctx.Err() != nil {
		return "timeout", text, dt
	}
	if strings.Contains(text, "interrupted") || strings.Contains(text, "timeout") {
		return "timeout", text, dt
	}
	return "error", text, dt
}

// solveOne races the solvers; the first definite answer (sat/unsat) wins.
func solveOne(file string, timeoutS int, which []solverSpec) (res, solver, output string, secs float64) {
	ctx, cancel := context.WithCancel(context.Background())
	defer cancel()
	type ans struct {
		r, s, o string
		t       float64
	}
	ch := make(chan ans, len(which))
	for _, s := range which {
		s := s
		go func() {
			r, o, t := runSolver(ctx, s, file, timeoutS)
			ch <- ans{r, s.name, o, t}
		}()
	}
	best := ans{r: "timeout"}
	var errOut string
	for range which {
		a := <-ch
		if a.r == "sat" || a.r == "unsat" {
			return a.r, a.s, a.o, a.t
		}
		if a.r == "error" {
			errOut = a.s + ": " + a.o
		}
		if a.r == "unknown" {
			best = a
		} else if best.r == "timeout" && a.r == "error" && best.s == "" {
			best = a
		}
	}
	if best.r == "error" {
		return "error", best.s, errOut, best.t
	}
	return best.r, best.s, best.o, best.t
}

func solveAll(x *Exec, dir string, timeoutS int, par int, filter func(*Obligation) bool) []*SolveResult {
	var results []*SolveResult
	var wg sync.WaitGroup
	sem := make(chan struct{}, par)
	var mu sync.Mutex
	for i, o := range x.obls {
		if filter != nil && !filter(o) {
			continue
		}
		text := x.obligationText(o)
		file := filepath.Join(dir, fmt.Sprintf("%s_%03d.smt2", sanitize(x.short), i))
		os.WriteFile(file, []byte(text), 0o644)
		r := &SolveResult{Name: o.Name, Kind: o.Kind, Props: o.Props, SMTBytes: len(text), File: file, Canary: o.Canary, Safety: o.Safety, Clause: o.Clause, Line: o.Line, Func: o.Func}
		mu.Lock()
		results = append(results, r)
		mu.Unlock()
		wg.Add(1)
		sem <- struct{}{}
		go func() {
			defer wg.Done()
			defer func() { <-sem }()
			which := solvers
			if x.X.bvMode {
				which = solvers
			}
			to := timeoutS
			if o.Canary && to > 3 {
				to = 3
			}
			res, s, out, t := solveOne(file, to, which)
			r.Result, r.Solver, r.TimeS, r.Output = res, s, t, out
			if res == "sat" {
				r.Model = out
			}
		}()
	}
	wg.Wait()
	return results
}

package main

// Portfolio solving of obligations with z3 4.8.12, z3 5.1.0 (z3-new) and cvc5.
//
// Each obligation is written twice: the full query, and a "relaxed" query in
// which every top-level quantified assertion (axioms of the prelude, pointer
// injectivity axioms) is dropped. unsat of either proves the obligation (the
// relaxed query has fewer hypotheses). sat of the full query is a real
// counter-model; sat of only the relaxed query is a *candidate* model, used
// for replay on the real code (solvers cannot answer sat in the presence of
// the quantified axioms, so this is how executable failing inputs are found).

import (
	"bytes"
	"context"
	"fmt"
	"os"
	"os/exec"
	"path/filepath"
	"strings"
	"sync"
	"time"
)

type SolveResult struct {
	Name     string  `json:"name"`
	Kind     string  `json:"kind"`
	Props    []string `json:"props,omitempty"`
	Result   string  `json:"result"` // unsat (discharged) | sat | unknown | timeout | error
	Solver   string  `json:"solver"`
	TimeS    float64 `json:"time_s"`
	SMTBytes int     `json:"smt_bytes"`
	Model    string  `json:"model,omitempty"`
	File     string  `json:"-"`
	Canary   bool    `json:"canary,omitempty"`
	Safety   bool    `json:"safety,omitempty"`
	Clause   string  `json:"clause,omitempty"`
	Line     int     `json:"line,omitempty"`
	Func     string  `json:"func"`
	Relaxed  bool    `json:"relaxed_model,omitempty"` // sat only for the relaxed query: candidate model
	Syms     map[string]string `json:"-"`
	Output   string  `json:"-"`
	Where    string  `json:"-"` // source position (file:line) of the instruction the obligation belongs to
	FullFile    string `json:"-"` // the full query (File is the relaxed one when only that had a model)
	RelaxedFile string `json:"-"`
	Retried     bool   `json:"-"` // decided by the second, uncontended pass (secondChance)
}

type solverSpec struct {
	name string
	argv func(file string, timeoutS int) []string
}

var solvers = []solverSpec{
	{"z3-4.8.12", func(f string, t int) []string { return []string{"z3", fmt.Sprintf("-T:%d", t), f} }},
	{"z3-5.1.0", func(f string, t int) []string { return []string{"z3-new", fmt.Sprintf("-T:%d", t), f} }},
	{"cvc5-1.0", func(f string, t int) []string {
		return []string{"cvc5", fmt.Sprintf("--tlimit=%d", t*1000), "--full-saturate-quant", f}
	}},
}

func (x *Exec) obligationText(o *Obligation) string {
	var b strings.Builder
	b.WriteString(prelude)
	var body strings.Builder
	for _, d := range x.X.decls {
		body.WriteString(d)
		body.WriteByte('\n')
	}
	body.WriteString(x.out.String()[:o.Prefix])
	bs := body.String()
	for _, op := range optionalPrelude {
		// prefix match: (elemref_base ...) needs the elemref block as well
		if strings.Contains(bs, "("+op.sym) || strings.Contains(o.Goal, "("+op.sym) || strings.Contains(o.Live, "("+op.sym) {
			b.WriteString(op.text)
			b.WriteByte('\n')
		}
	}
	b.WriteString(bs)
	fmt.Fprintf(&b, "(assert %s)\n", o.Live)
	fmt.Fprintf(&b, "(assert (not %s))\n", o.Goal)
	b.WriteString("(check-sat)\n(get-model)\n")
	return b.String()
}

// relaxText drops every top-level (assert (forall ...)) form.
func relaxText(text string) string {
	var b strings.Builder
	i := 0
	n := len(text)
	for i < n {
		if text[i] != '(' {
			b.WriteByte(text[i])
			i++
			continue
		}
		// find the end of this top-level form
		d := 0
		j := i
		for j < n {
			switch text[j] {
			case '(':
				d++
			case ')':
				d--
			case '"':
				j++
				for j < n && text[j] != '"' {
					j++
				}
			case ';':
				for j < n && text[j] != '\n' {
					j++
				}
			}
			j++
			if d == 0 {
				break
			}
		}
		form := text[i:j]
		if !(strings.HasPrefix(form, "(assert (forall") || strings.HasPrefix(form, "(assert (! (forall")) {
			b.WriteString(form)
		}
		i = j
	}
	return b.String()
}

var solverMu sync.Mutex
var solverSecs = map[string]float64{}

func runSolver(ctx context.Context, s solverSpec, file string, timeoutS int) (string, string, float64) {
	argv := s.argv(file, timeoutS)
	cctx, cancel := context.WithTimeout(ctx, time.Duration(timeoutS+2)*time.Second)
	defer cancel()
	cmd := exec.CommandContext(cctx, argv[0], argv[1:]...)
	var out bytes.Buffer
	cmd.Stdout = &out
	cmd.Stderr = &out
	t0 := time.Now()
	cmd.Run()
	dt := time.Since(t0).Seconds()
	solverMu.Lock()
	solverSecs[s.name] += dt
	solverMu.Unlock()
	text := out.String()
	for strings.HasPrefix(strings.TrimSpace(text), "WARNING") {
		t := strings.TrimSpace(text)
		if i := strings.Index(t, "\n"); i >= 0 {
			text = t[i+1:]
		} else {
			text = ""
		}
	}
	first := strings.TrimSpace(strings.SplitN(strings.TrimSpace(text), "\n", 2)[0])
	switch first {
	case "unsat", "sat", "unknown":
		return first, text, dt
	case "timeout":
		return "timeout", text, dt
	}
	if cctx.Err() != nil {
		return "timeout", text, dt
	}
	if strings.Contains(text, "interrupted") || strings.Contains(text, "timeout") {
		return "timeout", text, dt
	}
	return "error", text, dt
}

type solveAnswer struct {
	res, solver, output string
	secs                float64
	relaxed             bool
}

// solveOne races the solvers on the full query and one solver on the relaxed
// query. unsat from anywhere wins immediately; sat from the full query wins
// immediately; a relaxed sat is kept as a candidate until the full queries end.
func solveOne(file, relaxedFile string, timeoutS int, which []solverSpec, allRelaxed bool) solveAnswer {
	ctx, cancel := context.WithCancel(context.Background())
	defer cancel()
	ch := make(chan solveAnswer, len(which)+3)
	n := 0
	for _, s := range which {
		s := s
		n++
		go func() {
			r, o, t := runSolver(ctx, s, file, timeoutS)
			ch <- solveAnswer{r, s.name, o, t, false}
		}()
	}
	if relaxedFile != "" {
		// z3 4.8.12 on the relaxed query as well: it finds candidate models the newer
		// z3 times out on (and vice versa); both answers are only ever used as unsat
		// (fewer hypotheses: sound) or as a candidate model that must replay
		n++
		go func() {
			r, o, t := runSolver(ctx, solvers[0], relaxedFile, timeoutS)
			ch <- solveAnswer{r, solvers[0].name + "(relaxed)", o, t, true}
		}()
		if allRelaxed {
			// second pass: the machine is nearly idle, cvc5 gets the relaxed query at once
			// instead of after z3 5.1.0 has given up
			n++
			go func() {
				r, o, t := runSolver(ctx, solvers[2], relaxedFile, timeoutS)
				ch <- solveAnswer{r, solvers[2].name + "(relaxed)", o, t, true}
			}()
		}
		n++
		go func() {
			r, o, t := runSolver(ctx, solvers[1], relaxedFile, timeoutS)
			if r != "sat" && r != "unsat" && !allRelaxed {
				// second opinion on the relaxed query
				r2, o2, t2 := runSolver(ctx, solvers[2], relaxedFile, timeoutS)
				if r2 == "sat" || r2 == "unsat" {
					ch <- solveAnswer{r2, solvers[2].name + "(relaxed)", o2, t + t2, true}
					return
				}
			}
			ch <- solveAnswer{r, solvers[1].name + "(relaxed)", o, t, true}
		}()
	}
	best := solveAnswer{res: "timeout"}
	var cand *solveAnswer
	var errOut string
	for i := 0; i < n; i++ {
		a := <-ch
		switch {
		case a.res == "unsat":
			return a
		case a.res == "sat" && !a.relaxed:
			return a
		case a.res == "sat" && a.relaxed:
			c := a
			cand = &c
		case a.res == "error":
			if !a.relaxed {
				errOut = a.solver + ": " + a.output
				if best.res == "timeout" && best.solver == "" {
					best = a
				}
			}
		case a.res == "unknown":
			if !a.relaxed {
				best = a
			}
		}
	}
	if cand != nil {
		return *cand
	}
	if best.res == "error" {
		best.output = errOut
	}
	return best
}

func solveAll(x *Exec, dir string, timeoutS int, par int, filter func(*Obligation) bool) []*SolveResult {
	var results []*SolveResult
	var wg sync.WaitGroup
	sem := make(chan struct{}, par)
	for i, o := range x.obls {
		if filter != nil && !filter(o) {
			continue
		}
		text := x.obligationText(o)
		file := filepath.Join(dir, fmt.Sprintf("%s_%03d.smt2", sanitize(x.short), i))
		os.WriteFile(file, []byte(text), 0o644)
		relaxed := ""
		if rt := relaxText(text); rt != text {
			relaxed = filepath.Join(dir, fmt.Sprintf("%s_%03d.relaxed.smt2", sanitize(x.short), i))
			os.WriteFile(relaxed, []byte(rt), 0o644)
		}
		r := &SolveResult{Name: o.Name, Kind: o.Kind, Props: o.Props, SMTBytes: len(text), File: file, FullFile: file, RelaxedFile: relaxed, Canary: o.Canary, Safety: o.Safety, Clause: o.Clause, Line: o.Line, Func: o.Func, Syms: o.Syms, Where: x.shortPos(o.Pos)}
		results = append(results, r)
		wg.Add(1)
		sem <- struct{}{}
		go func(o *Obligation) {
			defer wg.Done()
			defer func() { <-sem }()
			to := timeoutS
			if o.Canary && to > 3 {
				to = 3
			}
			a := solveOne(file, relaxed, to, solvers, false)
			r.Result, r.Solver, r.TimeS, r.Output, r.Relaxed = a.res, a.solver, a.secs, a.output, a.relaxed && a.res == "sat"
			if a.res == "sat" {
				r.Model = a.output
				if a.relaxed {
					r.File = relaxed
				}
			}
		}(o)
	}
	wg.Wait()
	return results
}

// secondChance re-solves, a few at a time and with a longer limit, obligations
// that the first pass left without a proof and without a counter-model of the
// full query (timeout, unknown, error, or only a candidate model of the relaxed
// query). In the first pass up to 3 functions x 4 obligations x 5 solver
// processes share the machine, so an obligation that needs 7 s of solver time
// alone can miss a 10 s limit on a loaded or slower host: that is "undecided so
// far", not "the property is violated". Only unsat changes an answer here, so
// nothing is discharged that a solver did not prove; an obligation that is
// really false stays undischarged after the second pass and is reported.
func secondChance(rs []*SolveResult, timeoutS int) {
	var wg sync.WaitGroup
	sem := make(chan struct{}, 2)
	start := time.Now()
	for _, r := range rs {
		if time.Since(start) > 15*time.Minute {
			break // a tree that breaks this many obligations is reported from the first pass
		}
		if r == nil || r.Canary || r.Result == "unsat" || (r.Result == "sat" && !r.Relaxed) || r.FullFile == "" {
			continue
		}
		r := r
		wg.Add(1)
		sem <- struct{}{}
		go func() {
			defer wg.Done()
			defer func() { <-sem }()
			a := solveOne(r.FullFile, r.RelaxedFile, timeoutS, solvers, true)
			switch {
			case a.res == "unsat":
				r.Result, r.Solver, r.TimeS, r.Output, r.Relaxed, r.Model, r.File = "unsat", a.solver, a.secs, a.output, false, "", r.FullFile
				r.Retried = true
			case a.res == "sat" && !a.relaxed:
				// a real counter-model of the full query
				r.Result, r.Solver, r.TimeS, r.Output, r.Relaxed, r.Model, r.File = "sat", a.solver, a.secs, a.output, false, a.output, r.FullFile
				r.Retried = true
			case a.res == "sat" && r.Result != "sat":
				// a candidate model where the first pass had none: keep it for the replay
				r.Result, r.Solver, r.TimeS, r.Output, r.Relaxed, r.Model, r.File = "sat", a.solver, a.secs, a.output, true, a.output, r.RelaxedFile
				r.Retried = true
			}
		}()
	}
	wg.Wait()
}

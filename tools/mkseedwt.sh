#!/bin/sh
# usage: mkseedwt.sh <name>   — creates the scratch worktree /tmp/seed/<name> of /repo's HEAD for a
# seeding sub-agent. The contract files (zz_verif_contracts.go) are hidden from it (skip-worktree +
# removed from disk) so that what the agent writes is independent of what the checks look at.
set -e
name="$1"
W=/tmp/seed/$name
mkdir -p /tmp/seed
[ -d "$W" ] && git -C /repo worktree remove --force "$W"
git -C /repo worktree add --detach "$W" HEAD >/dev/null 2>&1
cd "$W"
for f in $(git ls-files | grep 'zz_verif_contracts.go$'); do git update-index --skip-worktree "$f"; rm -f "$f"; done
mkdir -p "$W/_seed"
echo "$W"

#!/bin/sh
# usage: confirmseed.sh <id> [name]  — re-confirms a seeded change in its scratch worktree /tmp/seed/<id>
# (demo passes without the change; with it: builds, demo fails, existing tests of the touched package pass),
# then stores it under /verif/seeded/<name>/.
id="$1"; name="${2:-$1}"
W=/tmp/seed/$id; S=$W/_seed
export GOFLAGS=-mod=mod GOPROXY=off
cd $W || exit 2
dir=$(python3 -c "import json;print(json.load(open('$S/meta.json'))['demo_package_dir'].strip('./').rstrip('/'))")
[ "$dir" = "" ] && dir=.
cp $S/demo_test.go $W/$dir/zz_seed_demo_test.go
echo "== demo without change (expect ok)"; go test -count=1 -run 'TestSeed' ./$dir/ 2>&1 | tail -2; r1=$?
git apply $S/patch.diff || { echo "PATCH DOES NOT APPLY"; rm -f $W/$dir/zz_seed_demo_test.go; exit 2; }
echo "== build with change"; go build ./... 2>&1 | tail -2
echo "== demo with change (expect FAIL)"; go test -count=1 -run 'TestSeed' ./$dir/ 2>&1 | tail -3
rm -f $W/$dir/zz_seed_demo_test.go
echo "== existing tests of touched packages with change (expect ok)"
for f in $(grep '^+++ b/' $S/patch.diff | sed 's|+++ b/||'); do d=$(dirname $f); go test -count=1 ./$d/ 2>&1 | tail -1; done
git checkout -- $(grep '^+++ b/' $S/patch.diff | sed 's|+++ b/||')
mkdir -p /verif/seeded/$name && cp $S/patch.diff $S/demo_test.go $S/meta.json /verif/seeded/$name/

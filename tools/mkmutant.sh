#!/bin/sh
# usage: mkmutant.sh <prop> <name> <file-relative-to-/repo> <sed-expr> <meta-json>
# Creates selftest/<prop>/<name>.patch (+ .json) from a sed edit; /repo is left unchanged.
set -e
prop="$1"; name="$2"; file="$3"; expr="$4"; meta="$5"
mkdir -p /verif/selftest/$prop
cd /repo
sed -i "$expr" "$file"
git diff -- "$file" > /verif/selftest/$prop/$name.patch
git checkout -- "$file"
echo "$meta" > /verif/selftest/$prop/$name.json
test -s /verif/selftest/$prop/$name.patch || { echo "EMPTY PATCH $prop/$name" >&2; exit 1; }

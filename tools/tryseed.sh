#!/bin/sh
# usage: tryseed.sh <patch.diff> <prop-id>...   Applies a seeded change to /repo, runs the checks, reverts it.
# Refuses to run when /repo has uncommitted changes to tracked files.
patch="$1"; shift
cd /repo
if [ -n "$(git status --porcelain --untracked-files=no)" ]; then echo "REFUSING: /repo has uncommitted changes" >&2; exit 2; fi
git apply "$patch" || { echo "patch does not apply" >&2; exit 2; }
cd /verif
for p in "$@"; do ./check "$p" | grep -v "^KNOWN-FINDING" | tail -6; echo "exit=$?"; done
cd /repo && git checkout -- . && git status --porcelain --untracked-files=no

#!/usr/bin/env python3
# usage: seedprompt.py <prop-id> [worktree-name] [extra hint]  — prints the prompt for a seeding sub-agent:
# only the property text and the scratch worktree, nothing from /verif.
import json, sys
pid = sys.argv[1]
name = sys.argv[2] if len(sys.argv) > 2 else pid
hint = sys.argv[3] if len(sys.argv) > 3 else ""
p = None
for l in open('/verif/properties.jsonl'):
    q = json.loads(l)
    if q['id'] == pid:
        p = q
W = f"/tmp/seed/{name}"
print(f"""You are helping to test a verification effort for grpc-go (Go implementation of gRPC). Work ONLY inside the scratch git worktree {W} (a checkout of the repository). Do not read or write anything under /verif or /repo. No network is available; before every go command run: export GOFLAGS=-mod=mod GOPROXY=off   (do NOT set GOSUMDB or GOTOOLCHAIN; the go command auto-switches to the cached go1.25 toolchain).

Here is a semantic property of grpc-go that should hold:

id: {p['id']}
title: {p['title']}
statement: {p['statement']}
quantifier: {json.dumps(p['quantifier'])}
why tests cannot settle it: {p['why_tests_cant']}
anchors: {json.dumps(p['anchors'])}

Your task: make a realistic change to the library source (non-test .go files) in {W} that BREAKS this property while the repository still compiles (`go build ./...`) and the EXISTING tests of the touched package(s) still pass (`go test -count=1 ./<pkg>/` for each package you touched; the tests are not to be edited). The change must look like something a maintainer could plausibly write (a refactoring slip, an optimisation, an off-by-one, a reordered statement, a dropped guard, a changed comparison), and it must need something SPECIFIC to manifest — a particular interleaving, a fault at a particular point, a multi-step sequence of operations, an unusual input (boundary value, overflow, rare combination of options), or two cooperating sites that each look fine alone — not something ordinary use would expose at once. Prefer changes inside the functions named by the anchors (or their direct helpers). {hint}

Also write a demonstration: an in-package Go test file (functions named TestSeedDemo...) that FAILS with your change and PASSES without it. It should exercise the real code (no copies of the functions).

Deliverables, all under {W}/_seed/ :
  patch.diff    — `git diff` of your change (library files only; must apply with `git apply` to a clean checkout)
  demo_test.go  — the demonstration test file (state its package in meta.json; it will be copied into that package directory as zz_seed_demo_test.go)
  meta.json     — {{"property": "{p['id']}", "what_it_breaks": "...", "needs_to_manifest": "...", "files_touched": [...], "demo_package_dir": "<dir relative to repo root, e.g. internal/transport>", "commands_run": ["..."]}}

Before finishing: (1) verify with the change applied: go build ./... succeeds, the existing tests of each touched package pass, the demo fails; (2) verify without the change the demo passes; (3) leave the worktree clean (change reverted with `git checkout -- .`, demo copy removed) — only _seed/ stays. Keep test runs focused (`-run` patterns, single packages; a full package run of internal/transport or test/ can take minutes — use `-timeout`). Report briefly what you changed and what is needed to manifest it.""")

#!/usr/bin/env python3
"""Regenerates /verif/MANIFEST.json from props/*.json and props/not_applicable.json."""
import json, glob, os, subprocess, sys
V = os.path.dirname(os.path.dirname(os.path.abspath(__file__)))
props = [json.loads(l) for l in open(os.path.join(V, "properties.jsonl"))]
ids = [p["id"] for p in props]
na_reasons = json.load(open(os.path.join(V, "props", "not_applicable.json")))
TECH = "contract-based deductive verification: requires/ensures/loop-invariant contracts on the real functions (//@ comments in build-tag-guarded files in /repo), VCs generated over go/ssa by gcv on every run, discharged by z3 4.8.12 / z3 5.1.0 / cvc5 1.0"
checks, claimed = [], []
for pid in ids:
    f = os.path.join(V, "props", pid + ".json")
    if not os.path.exists(f):
        continue
    c = json.load(open(f))
    if not c.get("claimed", True):
        continue
    claimed.append(pid)
    checks.append({
        "property_id": pid,
        "quick_cmd": "./check %s --tier quick" % pid,
        "thorough_cmd": "./check %s --tier thorough" % pid,
        "evidence_file": "evidence/%s.json" % pid,
        "replay_cmd_template": "./check %s --replay {path}" % pid,
        "engine": "gcv",
        "level_claimed": {"category": "proof", "text": c["level_text"], "design_ref": c.get("design_ref", "DESIGN.md §4 " + pid)},
        "level_note": c["level_note"],
        "technique": c.get("technique", TECH),
    })
na = []
for pid in ids:
    if pid in claimed:
        continue
    na.append({"property_id": pid, "reason": na_reasons.get(pid, na_reasons["_default"])})
commits = subprocess.run(["git", "-C", "/repo", "log", "--format=%H %s"], capture_output=True, text=True).stdout.strip().split("\n")
def only_contract_files(h):
    # a hook commit is one that touches nothing but the build-tag-guarded contract files
    # (whatever its subject: the end-of-round driver commits such changes under its own message)
    names = subprocess.run(["git", "-C", "/repo", "show", "--name-only", "--format=", h], capture_output=True, text=True).stdout.split()
    return bool(names) and all(os.path.basename(n) == "zz_verif_contracts.go" for n in names)
hook_commits = [l.split()[0] for l in commits if l.split(" ", 1)[1].startswith("verif:") or only_contract_files(l.split()[0])]
man = {
    "version": 1,
    "setup_cmd": "./setup.sh",
    "hooks": {
        "guard": "verif",
        "enable": "-tags=verif (adds only the comment-only files zz_verif_contracts.go; generated clause functions exist only in the go/packages overlay, never on disk in /repo)",
        "baseline_off_cmd": json.load(open("/root/.vp/BASELINE.json"))["cmd"],
        "source_commits": hook_commits,
        "add_only": True,
    },
    "engines": [{"name": "gcv", "path": "engine", "serves_properties": claimed,
                 "kind_free_text": "contract-based deductive verifier for Go written for this task: VC generation (forward symbolic execution with loop invariants, modular calls by contract, heap by components) over go/ssa NaiveForm of /repo's working tree; contracts are //@ comments in build-tag-guarded files in /repo; SMT back ends z3 4.8.12, z3 5.1.0, cvc5 1.0 raced per obligation; counterexamples replayed through go test -overlay"}],
    "checks": checks,
    "not_applicable": na,
    "notes": "Decision rule, trusted base and per-property scope: DESIGN.md. Known findings: known_findings.json. Seeded changes: seeded/.",
}
json.dump(man, open(os.path.join(V, "MANIFEST.json"), "w"), indent=1)
try:
    import jsonschema
    jsonschema.validate(man, json.load(open("/root/.vp/MANIFEST.schema.json")))
    print("MANIFEST.json valid: %d checks, %d not_applicable" % (len(checks), len(na)))
except ImportError:
    print("written (jsonschema not available for validation)")

#!/bin/sh
# Re-runs every claimed check's quick command sequentially on the unchanged tree so that the
# committed evidence files come from clean runs (a seeded-change trial rewrites them too).
cd "$(dirname "$0")/.."
if [ -n "$(git -C /repo status --porcelain --untracked-files=no)" ]; then echo "REFUSING: /repo has uncommitted changes" >&2; exit 2; fi
for p in $(python3 -c "import json;print(' '.join(c['property_id'] for c in json.load(open('MANIFEST.json'))['checks']))"); do
  ./check $p --tier quick > /tmp/refresh_$p.log 2>&1; echo "$p exit=$? $(tail -1 /tmp/refresh_$p.log)"
done

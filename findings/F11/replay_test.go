/*
 *
 * Copyright 2026 gRPC authors.
 *
 * Licensed under the Apache License, Version 2.0 (the "License");
 * you may not use this file except in compliance with the License.
 * You may obtain a copy of the License at
 *
 *     http://www.apache.org/licenses/LICENSE-2.0
 *
 * Unless required by applicable law or agreed to in writing, software
 * distributed under the License is distributed on an "AS IS" BASIS,
 * WITHOUT WARRANTIES OR CONDITIONS OF ANY KIND, either express or implied.
 * See the License for the specific language governing permissions and
 * limitations under the License.
 *
 */

package resolver

// Replay for: newConfigSelector's error cleanup (cs.stop()) releases
// clusterInfo references that the half-built config selector never took.
//
// Directory: internal/xds/resolver (internal test, package resolver).
//
// The test builds a real xdsResolver through the real builder (with an xDS
// client that never delivers any resource, so that the real dependency manager
// stays quiet) and then plays the role of the dependency manager by calling
// xdsResolver.Update() with hand-built xDS configs:
//
//	update 1: route "/"   -> cluster A                      (succeeds)
//	          an RPC is routed with SelectConfig() and NOT committed
//	update 2: route "/a"  -> cluster A                      (interceptor OK)
//	          route "/b"  -> cluster B + per-route override (interceptor build fails)
//
// Cluster A is then referenced by the current config selector and by the
// uncommitted RPC (reference count 2).  The failed construction of the second
// config selector must not change that count.

import (
	"context"
	"errors"
	"fmt"
	"net/url"
	"strings"
	"sync"
	"testing"
	"time"

	"google.golang.org/grpc/internal/xds/bootstrap"
	"google.golang.org/grpc/internal/xds/clients/lrsclient"
	"google.golang.org/grpc/internal/xds/clients/xdsclient"
	"google.golang.org/grpc/internal/xds/httpfilter"
	"google.golang.org/grpc/internal/xds/xdsclient/xdsresource"
	"google.golang.org/grpc/resolver"
	"google.golang.org/grpc/serviceconfig"
	"google.golang.org/protobuf/proto"

	iresolver "google.golang.org/grpc/internal/resolver"
)

const gcvTimeout = 10 * time.Second

// gcvXDSClient is an xDS client that never delivers any resource. It only
// provides the bootstrap configuration.
type gcvXDSClient struct {
	bc *bootstrap.Config
}

func (c *gcvXDSClient) WatchResource(string, string, xdsclient.ResourceWatcher) func() {
	return func() {}
}
func (c *gcvXDSClient) ReportLoad(*bootstrap.ServerConfig) (*lrsclient.LoadStore, func(context.Context)) {
	return nil, func(context.Context) {}
}
func (c *gcvXDSClient) BootstrapConfig() *bootstrap.Config { return c.bc }

// gcvPush is one resolver.ClientConn.UpdateState() call.
type gcvPush struct {
	scJSON string // service config JSON given to ParseServiceConfig for this push
	cs     iresolver.ConfigSelector
	// Result of the hook, evaluated synchronously inside UpdateState(), i.e.
	// on the resolver's serializer goroutine.
	hook string
}

// gcvClientConn is a resolver.ClientConn that records what the resolver pushes.
type gcvClientConn struct {
	mu       sync.Mutex
	lastJSON string
	hook     func() string
	pushes   chan gcvPush
	errs     chan error
}

func (cc *gcvClientConn) UpdateState(s resolver.State) error {
	cc.mu.Lock()
	p := gcvPush{scJSON: cc.lastJSON, cs: iresolver.GetConfigSelector(s)}
	hook := cc.hook
	cc.mu.Unlock()
	if hook != nil {
		p.hook = hook()
	}
	cc.pushes <- p
	return nil
}
func (cc *gcvClientConn) ReportError(err error)         { cc.errs <- err }
func (cc *gcvClientConn) NewAddress([]resolver.Address) {}
func (cc *gcvClientConn) ParseServiceConfig(js string) *serviceconfig.ParseResult {
	cc.mu.Lock()
	cc.lastJSON = js
	cc.mu.Unlock()
	return &serviceconfig.ParseResult{}
}
func (cc *gcvClientConn) setHook(f func() string) {
	cc.mu.Lock()
	cc.hook = f
	cc.mu.Unlock()
}

// gcvFilterCfg is the parsed config of the test HTTP filter. An override with
// fail set makes BuildClientInterceptor return an error.
type gcvFilterCfg struct {
	httpfilter.FilterConfig
	fail bool
}

// gcvFilter is a test HTTP filter (builder + client filter).
type gcvFilter struct{}

func (gcvFilter) TypeURLs() []string { return []string{"gcv.replay.filter"} }
func (gcvFilter) ParseFilterConfig(proto.Message, httpfilter.ParseOptions) (httpfilter.FilterConfig, error) {
	return gcvFilterCfg{}, nil
}
func (gcvFilter) ParseFilterConfigOverride(proto.Message, httpfilter.ParseOptions) (httpfilter.FilterConfig, error) {
	return gcvFilterCfg{}, nil
}
func (gcvFilter) IsTerminal() bool { return false }
func (f gcvFilter) BuildClientFilter(httpfilter.ClientFilterOptions) httpfilter.ClientFilter {
	return f
}
func (gcvFilter) Close() {}
func (gcvFilter) BuildClientInterceptor(_, override httpfilter.FilterConfig) (httpfilter.ClientInterceptor, error) {
	if o, ok := override.(gcvFilterCfg); ok && o.fail {
		return nil, errors.New("gcv: interceptor build failure requested by override")
	}
	// A nil interceptor with a nil error is valid: the RPC is not intercepted.
	return nil, nil
}

func gcvXDSConfig(routes []*xdsresource.Route) *xdsresource.XDSConfig {
	vh := &xdsresource.VirtualHost{Domains: []string{"*"}, Routes: routes}
	return &xdsresource.XDSConfig{
		Listener: &xdsresource.ListenerUpdate{
			APIListener: &xdsresource.HTTPConnectionManagerConfig{
				RouteConfigName: "gcv-route-config",
				HTTPFilters: []xdsresource.HTTPFilter{
					{Name: "gcv-filter", Filter: gcvFilter{}, Config: gcvFilterCfg{}},
				},
			},
		},
		RouteConfig: &xdsresource.RouteConfigUpdate{VirtualHosts: []*xdsresource.VirtualHost{vh}},
		VirtualHost: vh,
		Clusters:    map[string]*xdsresource.ClusterResult{},
	}
}

func gcvRoute(prefix, cluster string, override map[string]httpfilter.FilterConfig) *xdsresource.Route {
	return &xdsresource.Route{
		Prefix:                   &prefix,
		ActionType:               xdsresource.RouteActionRoute,
		WeightedClusters:         []xdsresource.WeightedCluster{{Name: cluster, Weight: 100}},
		HTTPFilterConfigOverride: override,
	}
}

func TestGcvReplay(t *testing.T) {
	bc, err := bootstrap.NewConfigFromContents([]byte(`{
		"xds_servers": [{"server_uri": "passthrough:///unused", "channel_creds": [{"type": "insecure"}]}],
		"node": {"id": "gcv-node"}
	}`))
	if err != nil {
		t.Fatalf("bootstrap.NewConfigFromContents() failed: %v", err)
	}
	builder, err := newBuilderWithClientForTesting(&gcvXDSClient{bc: bc})
	if err != nil {
		t.Fatalf("newBuilderWithClientForTesting() failed: %v", err)
	}
	cc := &gcvClientConn{pushes: make(chan gcvPush, 16), errs: make(chan error, 16)}
	u, err := url.Parse("xds:///gcv-service")
	if err != nil {
		t.Fatalf("url.Parse() failed: %v", err)
	}
	res, err := builder.Build(resolver.Target{URL: *u}, cc, resolver.BuildOptions{})
	if err != nil {
		t.Fatalf("Build() failed: %v", err)
	}
	r := res.(*xdsResolver)
	defer r.Close()

	const keyA = clusterPrefix + "A"

	// inSerializer runs f on the resolver's serializer (where all resolver
	// state may be accessed) and waits for it.
	inSerializer := func(f func()) {
		t.Helper()
		done := make(chan struct{})
		r.serializer.TrySchedule(func(context.Context) { f(); close(done) })
		select {
		case <-done:
		case <-time.After(gcvTimeout):
			t.Fatalf("timeout waiting for serializer callback")
		}
	}
	nextPush := func(what string) gcvPush {
		t.Helper()
		select {
		case p := <-cc.pushes:
			return p
		case <-time.After(gcvTimeout):
			t.Fatalf("timeout waiting for the resolver to push %s", what)
		}
		return gcvPush{}
	}

	// ---- update 1: "/" -> A. Succeeds; its config selector becomes current.
	r.Update(gcvXDSConfig([]*xdsresource.Route{gcvRoute("/", "A", nil)}))
	p1 := nextPush("the first (good) update")
	if p1.cs == nil || !strings.Contains(p1.scJSON, keyA) {
		t.Fatalf("setup: first update pushed service config %q with config selector %v; want a config selector and cluster %q in the service config", p1.scJSON, p1.cs, keyA)
	}

	// Route an RPC to cluster A and do not commit it.
	rpcCfg, err := p1.cs.SelectConfig(iresolver.RPCInfo{Context: context.Background(), Method: "/gcv.Service/Method"})
	if err != nil {
		t.Fatalf("setup: SelectConfig() on the first config selector failed: %v", err)
	}
	if rpcCfg.OnCommitted == nil {
		t.Fatalf("setup: SelectConfig() returned no OnCommitted callback")
	}

	// Instrument cluster A's unsubscribe function (the one obtained from the
	// real dependency manager is still called).
	var ciA *clusterInfo
	var unsubMu sync.Mutex
	unsubCalls := 0
	var refBefore int32
	inSerializer(func() {
		ciA = r.activeClusters[keyA]
		if ciA == nil {
			return
		}
		orig := ciA.unsubscribe
		ciA.unsubscribe = func() {
			unsubMu.Lock()
			unsubCalls++
			unsubMu.Unlock()
			orig()
		}
		refBefore = ciA.refCount.Load()
	})
	if ciA == nil {
		t.Fatalf("setup: cluster %q is not in activeClusters after the first update", keyA)
	}
	if refBefore != 2 {
		t.Fatalf("setup: reference count of %q is %d after the first update and one uncommitted RPC; want 2 (current config selector + RPC)", keyA, refBefore)
	}
	getUnsub := func() int {
		unsubMu.Lock()
		defer unsubMu.Unlock()
		return unsubCalls
	}

	// The hook runs inside UpdateState(), which the resolver calls from
	// onResourceError() after newConfigSelector() has failed and BEFORE the
	// current config selector is stopped. At that point both the current
	// config selector and the RPC still hold cluster A.
	var refAfterFailedBuild int32
	var unsubAfterFailedBuild int
	cc.setHook(func() string {
		refAfterFailedBuild = ciA.refCount.Load()
		unsubAfterFailedBuild = getUnsub()
		return "ran"
	})

	// ---- update 2: "/a" -> A (fine), "/b" -> B whose interceptor build fails.
	failing := map[string]httpfilter.FilterConfig{"gcv-filter": gcvFilterCfg{fail: true}}
	r.Update(gcvXDSConfig([]*xdsresource.Route{
		gcvRoute("/a", "A", nil),
		gcvRoute("/b", "B", failing),
	}))
	p2 := nextPush("the erroring update that follows the failed config selector construction")
	cc.setHook(nil)
	if p2.hook != "ran" {
		t.Fatalf("setup: hook did not run during the second push")
	}
	if p2.cs != nil {
		t.Fatalf("setup: second update pushed a config selector (%T); the interceptor build was expected to fail", p2.cs)
	}
	select {
	case err := <-cc.errs:
		if !strings.Contains(err.Error(), "interceptor build failure requested by override") {
			t.Fatalf("setup: resolver reported error %v; want the interceptor build failure", err)
		}
	case <-time.After(gcvTimeout):
		t.Fatalf("setup: timeout waiting for the resolver to report the interceptor build failure")
	}

	// State after the whole failed update has been processed; the RPC is still
	// uncommitted, so it still holds cluster A.
	var refAfterUpdate int32
	var inActiveAfterUpdate bool
	inSerializer(func() {
		refAfterUpdate = ciA.refCount.Load()
		inActiveAfterUpdate = r.activeClusters[keyA] == ciA
	})
	unsubAfterUpdate := getUnsub()

	// Now commit the RPC.
	rpcCfg.OnCommitted()
	var refAfterCommit int32
	inSerializer(func() { refAfterCommit = ciA.refCount.Load() })
	unsubAfterCommit := getUnsub()

	observed := fmt.Sprintf("cluster %q: refcount before failed update = %d (current selector + uncommitted RPC); "+
		"right after newConfigSelector() failed and before the current selector was stopped: refcount = %d, unsubscribe calls = %d; "+
		"after the failed update was fully processed (RPC still uncommitted): refcount = %d, unsubscribe calls = %d, still in activeClusters = %v; "+
		"after the RPC was committed: refcount = %d, unsubscribe calls = %d",
		keyA, refBefore, refAfterFailedBuild, unsubAfterFailedBuild, refAfterUpdate, unsubAfterUpdate, inActiveAfterUpdate, refAfterCommit, unsubAfterCommit)
	t.Log(observed)

	var problems []string
	if refAfterFailedBuild != refBefore {
		problems = append(problems, fmt.Sprintf("the failed construction of a config selector changed the reference count of %q from %d to %d: its cleanup released a reference it never took", keyA, refBefore, refAfterFailedBuild))
	}
	if refAfterUpdate != 1 {
		problems = append(problems, fmt.Sprintf("with one uncommitted RPC routed to %q and no config selector left, its reference count is %d; want 1", keyA, refAfterUpdate))
	}
	if unsubAfterUpdate != 0 {
		problems = append(problems, fmt.Sprintf("unsubscribe for %q ran %d time(s) while an RPC routed to it was still uncommitted; want 0", keyA, unsubAfterUpdate))
	}
	if !inActiveAfterUpdate {
		problems = append(problems, fmt.Sprintf("%q was removed from activeClusters while an RPC routed to it was still uncommitted", keyA))
	}
	if refAfterCommit != 0 {
		problems = append(problems, fmt.Sprintf("after the RPC was committed the reference count of %q is %d; want 0", keyA, refAfterCommit))
	}
	if unsubAfterCommit != 1 {
		problems = append(problems, fmt.Sprintf("after the RPC was committed unsubscribe for %q ran %d time(s) in total; want exactly 1 (at commit time)", keyA, unsubAfterCommit))
	}
	if len(problems) > 0 {
		t.Fatalf("cluster reference accounting broken by a failed config selector construction:\n  - %s\nobserved: %s", strings.Join(problems, "\n  - "), observed)
	}
}

package test

// Replay for finding F4 (property C27): a server configured with the legacy
// grpc.RPCCompressor option whose handler selects "identity" through
// grpc.SetSendCompressor still compresses the response with the legacy
// compressor: the message goes out with the compressed flag set while
// grpc-encoding is identity, and the client fails the RPC with INTERNAL
// ("compressed flag set with identity or empty encoding").
//
// Run (does not write to the repository):
//   go test -overlay <ov.json> -vet=off -count=1 -run 'Test/F4' ./test/

import (
	"context"
	"testing"

	"google.golang.org/grpc"
	"google.golang.org/grpc/internal/stubserver"

	testgrpc "google.golang.org/grpc/interop/grpc_testing"
	testpb "google.golang.org/grpc/interop/grpc_testing"
)

func (s) TestF4LegacyCompressorIdentityUnary(t *testing.T) {
	ss := &stubserver.StubServer{
		UnaryCallF: func(ctx context.Context, _ *testpb.SimpleRequest) (*testpb.SimpleResponse, error) {
			if err := grpc.SetSendCompressor(ctx, "identity"); err != nil {
				return nil, err
			}
			return &testpb.SimpleResponse{Payload: &testpb.Payload{Body: make([]byte, 64)}}, nil
		},
	}
	if err := ss.Start([]grpc.ServerOption{grpc.RPCCompressor(grpc.NewGZIPCompressor())}); err != nil {
		t.Fatalf("Error starting endpoint server: %v", err)
	}
	defer ss.Stop()
	ctx, cancel := context.WithTimeout(context.Background(), defaultTestTimeout)
	defer cancel()
	if _, err := ss.Client.UnaryCall(ctx, &testpb.SimpleRequest{}); err != nil {
		t.Fatalf("GCV-REPLAY-REPRODUCED: unary call with handler-selected identity encoding failed: %v", err)
	}
}

func (s) TestF4LegacyCompressorIdentityStream(t *testing.T) {
	ss := &stubserver.StubServer{
		FullDuplexCallF: func(stream testgrpc.TestService_FullDuplexCallServer) error {
			if _, err := stream.Recv(); err != nil {
				return err
			}
			if err := grpc.SetSendCompressor(stream.Context(), "identity"); err != nil {
				return err
			}
			return stream.Send(&testpb.StreamingOutputCallResponse{Payload: &testpb.Payload{Body: make([]byte, 64)}})
		},
	}
	if err := ss.Start([]grpc.ServerOption{grpc.RPCCompressor(grpc.NewGZIPCompressor())}); err != nil {
		t.Fatalf("Error starting endpoint server: %v", err)
	}
	defer ss.Stop()
	ctx, cancel := context.WithTimeout(context.Background(), defaultTestTimeout)
	defer cancel()
	st, err := ss.Client.FullDuplexCall(ctx)
	if err != nil {
		t.Fatalf("FullDuplexCall: %v", err)
	}
	if err := st.Send(&testpb.StreamingOutputCallRequest{}); err != nil {
		t.Fatalf("Send: %v", err)
	}
	if _, err := st.Recv(); err != nil {
		t.Fatalf("GCV-REPLAY-REPRODUCED: streaming response with handler-selected identity encoding failed: %v", err)
	}
}
